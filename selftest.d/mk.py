#!/usr/bin/env python3
"""Generates the hand-written sensitivity patches in this directory from /repo's current
sources (string replacements -> unified diffs). Re-run after /repo changes: ./mk.py"""
import difflib, os, sys

REPO = "/repo"
OUT = os.path.dirname(os.path.abspath(__file__))

def mk(name, expect, edits, note):
    """edits: list of (file, old, new, count) ; count = which occurrence (0-based) or 'all'"""
    files = {}
    for f, old, new, which in edits:
        src = files.get(f) or open(os.path.join(REPO, f)).read()
        if old not in src:
            print(f"!! {name}: pattern not found in {f}: {old[:60]!r}")
            return
        if which == "all":
            src2 = src.replace(old, new)
        else:
            idx = -1
            for _ in range(which + 1):
                idx = src.find(old, idx + 1)
                if idx < 0:
                    print(f"!! {name}: occurrence {which} not found in {f}")
                    return
            src2 = src[:idx] + new + src[idx + len(old):]
        files[f] = src2
    out = [f"# expect: {expect} -- {note}\n"]
    for f, new in files.items():
        old = open(os.path.join(REPO, f)).read()
        out += list(difflib.unified_diff(old.splitlines(True), new.splitlines(True), "a/" + f, "b/" + f))
    open(os.path.join(OUT, name + ".patch"), "w").writelines(out)

FG = "src/fn_graph.rs"
AUG = "src/fn_graph_builder/data_edge_augmenter.rs"
BLD = "src/fn_graph_builder.rs"
PCC = "src/fn_graph_builder/predecessor_count_calc.rs"
REF = "src/fn_ref.rs"

# --- conflict predicate --------------------------------------------------------------
mk("m01_conflict_drop_read_then_write", "C01", [(AUG,
   """                        let conflict = fn_borrows
                            .iter()
                            .any(|left| fn_next_borrow_muts.iter().any(|right| left == right))
                            || fn_borrow_muts""",
   """                        let conflict = fn_borrow_muts""", 0)], "reader-then-writer pairs no longer conflict")
mk("m02_conflict_drop_write_then_read", "C01", [(AUG,
   """                            || fn_borrow_muts
                                .iter()
                                .any(|left| fn_next_borrows.iter().any(|right| left == right))
""", "", 0)], "writer-then-reader pairs no longer conflict")
mk("m03_conflict_drop_write_write", "C01", [(AUG,
   """                            || fn_borrow_muts
                                .iter()
                                .any(|left| fn_next_borrow_muts.iter().any(|right| left == right));""", ";", 0)],
   "writer/writer pairs no longer conflict")
mk("m04_conflict_read_read", "C06", [(AUG,
   """                        let conflict = fn_borrows
                            .iter()
                            .any(|left| fn_next_borrow_muts.iter().any(|right| left == right))""",
   """                        let conflict = fn_borrows
                            .iter()
                            .any(|left| fn_next_borrows.iter().any(|right| left == right))
                            || fn_borrows
                            .iter()
                            .any(|left| fn_next_borrow_muts.iter().any(|right| left == right))""", 0)],
   "shared readers are serialised (spurious read-read Data edges)")
mk("m05_augment_same_rank_skipped", "C01", [(AUG,
   """                .filter(|fn_id_next| fn_id != *fn_id_next);""",
   """                .filter(|fn_id_next| {
                    fn_id != *fn_id_next && ranks[fn_id.index()] != ranks[fn_id_next.index()]
                });""", 0)], "conflicting functions of equal rank get no Data edge")
# --- counts / structures --------------------------------------------------------------
mk("m06_counts_before_augment", "C01,C04", [(BLD,
   """        DataEdgeAugmenter::augment(&mut graph, &ranks);
        #[cfg(feature = "async")]
        let edge_counts = PredecessorCountCalc::calc(&graph);""",
   """        #[cfg(feature = "async")]
        let edge_counts = PredecessorCountCalc::calc(&graph);
        DataEdgeAugmenter::augment(&mut graph, &ranks);""", 0)], "edge counts computed before Data edges are added")
mk("m07_reverse_uses_incoming", "C02,C04", [(FG,
   "StreamOrder::Reverse => (graph_structure_rev, edge_counts.outgoing().to_vec()),",
   "StreamOrder::Reverse => (graph_structure_rev, edge_counts.incoming().to_vec()),", 0)], "reverse order with forward counts")
mk("m08_release_at_le_1_queuer", "C02,C03", [(FG,
   """                        predecessor_counts[child_fn_id.index()] -= 1;
                        if predecessor_counts[child_fn_id.index()] == 0 {
                            if let Some(fn_ready_tx) = fn_ready_tx.as_ref() {
                                // If we fail to queue a function, the scheduler has been
                                // interrupted.
                                let _ = fn_ready_tx.try_send(child_fn_id);
                            }
                        }
                    });

                QueuerStreamState {""",
   """                        predecessor_counts[child_fn_id.index()] =
                            predecessor_counts[child_fn_id.index()].saturating_sub(1);
                        if predecessor_counts[child_fn_id.index()] <= 1 {
                            if let Some(fn_ready_tx) = fn_ready_tx.as_ref() {
                                // If we fail to queue a function, the scheduler has been
                                // interrupted.
                                let _ = fn_ready_tx.try_send(child_fn_id);
                            }
                        }
                    });

                QueuerStreamState {""", 0)], "queuer releases a function when one predecessor is still missing")
# --- channel capacities ----------------------------------------------------------------
mk("m09_channel_capacity_64", "C03,C04,C05", [(FG,
   "let channel_capacity = std::cmp::max(1, graph_structure.node_count());\n    let (fn_ready_tx, fn_ready_rx) = mpsc::channel(channel_capacity);",
   "let channel_capacity = std::cmp::min(64, std::cmp::max(1, graph_structure.node_count()));\n    let (fn_ready_tx, fn_ready_rx) = mpsc::channel(channel_capacity);", 0)],
   "ready/done channels capped at 64")
mk("m10_result_channel_capacity_1", "C04,C07", [(FG,
   """        let channel_capacity = std::cmp::max(1, graph_structure.node_count());
        let (result_tx, mut result_rx) = mpsc::channel(channel_capacity);""",
   """        let (result_tx, mut result_rx) = mpsc::channel(1);""", 0)], "error channel of try_for_each_concurrent holds one error")
# --- done notification -----------------------------------------------------------------
mk("m11_done_before_await_for_each", "C01,C02", [(FG,
   """                        fn_for_each(r#fn).await;
                        fn_done_send_locked(fn_done_tx, fn_id).await;""",
   """                        let fut = fn_for_each(r#fn);
                        fn_done_send_locked(fn_done_tx, fn_id).await;
                        fut.await;""", 0)], "done sent before the user future resolved (for_each_concurrent)")
# --- empty graph / closing ---------------------------------------------------------------
mk("m12_empty_release_missing_for_each", "C04", [(FG,
   """        if graph_structure.node_count() == 0 {
            fn_done_tx.write().await.take();
        }
        let scheduler = async move {
            let mut fn_ids_processed = Vec::with_capacity(graph_structure.node_count());
            poll_and_track_fn_ready(""",
   """        let scheduler = async move {
            let mut fn_ids_processed = Vec::with_capacity(graph_structure.node_count());
            poll_and_track_fn_ready(""", 0)], "for_each_concurrent on an empty graph never returns")
mk("m13_done_tx_kept_on_interrupt", "C04,C08", [(FG,
   """    if interrupted {
        fn_done_tx.write().await.take();
    }""", """    if interrupted && false {
        fn_done_tx.write().await.take();
    }""", 0)], "done sender kept when interrupted (for_each family)")
mk("m14_done_tx_kept_on_error", "C07", [(FG,
   """                            // Close `fn_done_rx`, which means `fn_ready_queuer` should return
                            // `Poll::Ready(None)`.
                            fn_done_tx.write().await.take();
                        };

                        fn_done_send_locked(fn_done_tx, fn_id).await;
                        fns_remaining_decrement(fns_remaining, fn_done_tx).await;
                    }

                    #[cfg(feature = "interruptible")]
                    fn_done_tx_drop_if_interrupted(fn_done_tx, interrupted).await;
                },
            )
            .await;

            drop(result_tx);

            fn_ids_processed
        };

        let ((), fn_ids_processed) = futures::join!(queuer, scheduler);
        let stream_outcome_state = stream_outcome_state_after_stream(*fns_remaining.read().await);
        let stream_outcome =
            StreamOutcome::new(graph_structure, (), stream_outcome_state, fn_ids_processed);

        let results = stream::poll_fn(move |ctx| result_rx.poll_recv(ctx))
            .collect::<Vec<E>>()
            .await;

        if results.is_empty() {
            Ok(stream_outcome)
        } else {
            Err((stream_outcome, results))
        }
    }

    /// Runs the provided logic over the functions concurrently in topological
    /// order, stopping when an error is encountered.
    ///
    /// This gracefully waits until all produced tasks have returned. The return
    /// error type is a `Vec<E>` as it is possible for multiple tasks to return
    /// errors.""",
   """                        };

                        fn_done_send_locked(fn_done_tx, fn_id).await;
                        fns_remaining_decrement(fns_remaining, fn_done_tx).await;
                    }

                    #[cfg(feature = "interruptible")]
                    fn_done_tx_drop_if_interrupted(fn_done_tx, interrupted).await;
                },
            )
            .await;

            drop(result_tx);

            fn_ids_processed
        };

        let ((), fn_ids_processed) = futures::join!(queuer, scheduler);
        let stream_outcome_state = stream_outcome_state_after_stream(*fns_remaining.read().await);
        let stream_outcome =
            StreamOutcome::new(graph_structure, (), stream_outcome_state, fn_ids_processed);

        let results = stream::poll_fn(move |ctx| result_rx.poll_recv(ctx))
            .collect::<Vec<E>>()
            .await;

        if results.is_empty() {
            Ok(stream_outcome)
        } else {
            Err((stream_outcome, results))
        }
    }

    /// Runs the provided logic over the functions concurrently in topological
    /// order, stopping when an error is encountered.
    ///
    /// This gracefully waits until all produced tasks have returned. The return
    /// error type is a `Vec<E>` as it is possible for multiple tasks to return
    /// errors.""", 0)], "try_for_each_concurrent keeps the done sender after an error: dependents of the failed function start")
# --- limit / include / outcome ---------------------------------------------------------
mk("m15_limit_ignored", "C10", [(FG,
   """            .for_each_concurrent(
                limit,
                |#[cfg(not(feature = "interruptible"))] fn_id,
                 #[cfg(feature = "interruptible")] fn_id_poll_outcome| async move {
                    #[cfg(not(feature = "interruptible"))]
                    let fn_id = Some(fn_id);
                    #[cfg(feature = "interruptible")]
                    let (fn_id, interrupted) = fn_id_from_interrupt(fn_id_poll_outcome);

                    if let Some(fn_id) = fn_id {
                        let mut r#fn = fn_mut_refs[fn_id.index()]""",
   """            .for_each_concurrent(
                limit.into().map(|l: usize| l + 1),
                |#[cfg(not(feature = "interruptible"))] fn_id,
                 #[cfg(feature = "interruptible")] fn_id_poll_outcome| async move {
                    #[cfg(not(feature = "interruptible"))]
                    let fn_id = Some(fn_id);
                    #[cfg(feature = "interruptible")]
                    let (fn_id, interrupted) = fn_id_from_interrupt(fn_id_poll_outcome);

                    if let Some(fn_id) = fn_id {
                        let mut r#fn = fn_mut_refs[fn_id.index()]""", 0)], "limit+1 in for_each_concurrent_mut")
mk("m16_include_inverted", "C08", [(FG,
   "    if interrupted_next_item_include {\n        poll_and_track_fn_ready_common",
   "    if !interrupted_next_item_include {\n        poll_and_track_fn_ready_common", 0)], "include flag inverted")
mk("m17_excluded_still_processed", "C09", [(FG,
   """                let fn_id = match &mut fn_id_poll_outcome {
                    PollOutcome::Interrupted(fn_id) => {
                        fn_id.take();
                        None
                    }""",
   """                let fn_id = match &mut fn_id_poll_outcome {
                    PollOutcome::Interrupted(fn_id) => fn_id.take(),""", 0)], "excluded item still listed as processed")
mk("m18_finished_when_one_left", "C09", [(FG,
   """    match fns_remaining {
        0 => StreamOutcomeState::Finished,""",
   """    match fns_remaining {
        0 | 1 => StreamOutcomeState::Finished,""", 0)], "Finished reported with one function unprocessed")
mk("m19_not_processed_reversed", "C09", [("src/stream_outcome.rs",
   """            .collect::<Vec<_>>();

        Self {
            value,
            state: stream_outcome_state,""",
   """            .collect::<Vec<_>>()
            .into_iter()
            .rev()
            .collect::<Vec<_>>();

        Self {
            value,
            state: stream_outcome_state,""", 0)], "fn_ids_not_processed in reverse insertion order")
# --- stream ------------------------------------------------------------------------------
mk("m20_stream_single_drain", "C05", [(FG,
   "while let Poll::Ready(Some(fn_id)) = fn_done_rx.poll_recv(context) {",
   "if let Poll::Ready(Some(fn_id)) = fn_done_rx.poll_recv(context) {", 0)], "F2 reverted: one done notification per poll")
mk("m21_stream_early_none", "C05", [(FG,
   """                fns_remaining -= 1;

                if fns_remaining == 0 {
                    fn_done_tx.take();
                    fn_ready_tx.take();
                }
            }

            poll""",
   """                fns_remaining -= 1;

                if fns_remaining <= 1 {
                    fn_done_tx.take();
                    fn_ready_tx.take();
                }
            }

            poll""", 0)], "stream ends one function early")
mk("m22_fnref_drop_blocking_capacity", "C05", [(FG,
   "    let (fn_done_tx, fn_done_rx) = mpsc::channel::<FnId>(channel_capacity);",
   "    let (fn_done_tx, fn_done_rx) = mpsc::channel::<FnId>(std::cmp::max(1, channel_capacity / 2));", 0)],
   "done channel half size: FnRef::drop's try_send can be lost")
# --- history / sharing ------------------------------------------------------------------
mk("m24_f1_reverted", "C04", [(FG,
   """        let fn_mut_refs = &fn_mut_refs;

        if graph_structure.node_count() == 0 {
            fn_done_tx.write().await.take();
        }
        let scheduler = async move {
            let result_tx_ref = &result_tx;""",
   """        let fn_mut_refs = &fn_mut_refs;
        let scheduler = async move {
            let result_tx_ref = &result_tx;""", 0)], "finding F1 reverted: try_for_each_concurrent_mut* on an empty graph")
mk("m25_static_roots_cache", "C04", [(FG,
   """    fns_no_predecessors(graph_structure, predecessor_counts)
        .try_for_each(|fn_id| fn_ready_tx.try_send(fn_id))
        .expect("Failed to preload function with no predecessors.");""",
   """    // Cache the functions to start with.
    static FNS_INITIAL: std::sync::OnceLock<Vec<FnId>> = std::sync::OnceLock::new();
    let fns_initial = FNS_INITIAL
        .get_or_init(|| fns_no_predecessors(graph_structure, predecessor_counts).collect());
    fns_initial
        .iter()
        .copied()
        .filter(|fn_id| fn_id.index() < predecessor_counts.len())
        .try_for_each(|fn_id| fn_ready_tx.try_send(fn_id))
        .expect("Failed to preload function with no predecessors.");""", 0)],
   "process-global cache of the initial functions: state outside the case (exercises the history-replay fallback)")
mk("m26_stream_never_ends", "C05", [(FG,
   """                fns_remaining -= 1;

                if fns_remaining == 0 {
                    fn_done_tx.take();
                    fn_ready_tx.take();
                }
            }

            poll""",
   """                fns_remaining -= 1;
            }

            poll""", 0)], "stream does not end after the last function was yielded (late / missing None)")
