//! fgsim – deterministic simulation of fn_graph runs with fault injection.
//!
//! Sub-commands
//!   check        seeded search for one property, writes a partial evidence file
//!   replay       re-executes a replay file (explicit schedule, no PRNG)
//!   determinism  prints `index hash` for a range of seeds
//!   show         prints the case and trace of one seed

mod exec;
mod gen;
mod oracle;
mod rng;
mod runner;
mod sched;
mod seq;
mod spec;
mod stats;
mod world;

use std::{
    collections::BTreeMap,
    sync::{
        atomic::{AtomicBool, AtomicU64, Ordering},
        Mutex,
    },
    time::{Duration, Instant},
};

use serde_json::{json, Value};

use crate::{
    gen::{Prop, FEATURE_I},
    runner::{execute_seed, minimise, parse_replay, replay_json, result_hash, seed_for, Executed},
    stats::Stats,
};

fn build_tag() -> &'static str {
    if FEATURE_I {
        "I"
    } else {
        "D"
    }
}

fn arg<'a>(args: &'a [String], name: &str) -> Option<&'a str> {
    args.iter()
        .position(|a| a == name)
        .and_then(|i| args.get(i + 1))
        .map(|s| s.as_str())
}

fn main() {
    // library panics are data, not noise; harness panics are reported by callers
    std::panic::set_hook(Box::new(|_| {}));
    let args: Vec<String> = std::env::args().collect();
    let cmd = args.get(1).map(|s| s.as_str()).unwrap_or("");
    let code = match cmd {
        "check" => cmd_check(&args),
        "replay" => cmd_replay(&args),
        "determinism" => cmd_determinism(&args),
        "seqscan" => cmd_seqscan(&args),
        "show" => cmd_show(&args),
        _ => {
            eprintln!("usage: fgsim check|replay|determinism|show ...");
            2
        }
    };
    std::process::exit(code);
}

fn base_seed(args: &[String]) -> u64 {
    arg(args, "--seed")
        .and_then(|s| s.parse::<u64>().ok())
        .unwrap_or(20260926)
}

/// build-specific seed space: the two feature builds explore disjoint cases
fn seed_of(base: u64, prop: Prop, index: u64) -> u64 {
    seed_for(base ^ if FEATURE_I { 0x4949_4949 } else { 0 }, prop, index)
}

#[derive(Clone, Debug)]
struct Known {
    property: String,
    status: String,
    class: Option<String>,
    apis: Option<Vec<String>>,
    n_max: Option<usize>,
    msg_contains: Option<String>,
    text: String,
}

fn load_known(path: Option<&str>) -> Vec<Known> {
    let Some(path) = path else { return Vec::new() };
    let Ok(s) = std::fs::read_to_string(path) else {
        return Vec::new();
    };
    let Ok(v) = serde_json::from_str::<Value>(&s) else {
        eprintln!("HARNESS-ERROR: cannot parse {path}");
        std::process::exit(2);
    };
    let mut out = Vec::new();
    for e in v.get("findings").and_then(|f| f.as_array()).cloned().unwrap_or_default() {
        let sig = e.get("signature").cloned().unwrap_or(json!({}));
        out.push(Known {
            property: e.get("property").and_then(|x| x.as_str()).unwrap_or("").to_string(),
            status: e.get("status").and_then(|x| x.as_str()).unwrap_or("").to_string(),
            class: sig.get("class").and_then(|x| x.as_str()).map(|s| s.to_string()),
            apis: sig.get("apis").and_then(|x| x.as_array()).map(|a| {
                a.iter().filter_map(|x| x.as_str().map(|s| s.to_string())).collect()
            }),
            n_max: sig.get("n_max").and_then(|x| x.as_u64()).map(|x| x as usize),
            msg_contains: sig.get("msg_contains").and_then(|x| x.as_str()).map(|s| s.to_string()),
            text: e.get("text").and_then(|x| x.as_str()).unwrap_or("").to_string(),
        });
    }
    out
}

fn matches_known<'a>(known: &'a [Known], prop: Prop, ex: &Executed) -> Option<&'a Known> {
    let v = ex.violation.as_ref()?;
    known.iter().find(|k| {
        k.status == "known"
            && k.property == prop.name()
            && k.class.as_deref().map_or(true, |c| c == v.class)
            && k.apis.as_ref().map_or(true, |a| {
                ex.case
                    .runs
                    .get(v.run)
                    .map_or(false, |r| a.iter().any(|x| x == r.api.name()))
            })
            && k.n_max.map_or(true, |m| ex.case.graph.fns.len() <= m)
            && k.msg_contains.as_deref().map_or(true, |m| v.msg.contains(m))
    })
}

fn cmd_check(args: &[String]) -> i32 {
    let Some(prop) = arg(args, "--prop").and_then(Prop::from_str) else {
        eprintln!("--prop required");
        return 2;
    };
    let runs: u64 = arg(args, "--runs").and_then(|s| s.parse().ok()).unwrap_or(10_000);
    let threads: usize = arg(args, "--threads")
        .and_then(|s| s.parse().ok())
        .unwrap_or_else(|| std::thread::available_parallelism().map(|n| n.get()).unwrap_or(4));
    let base = base_seed(args);
    let out = arg(args, "--out").map(|s| s.to_string());
    let replay_dir = arg(args, "--replay-dir").unwrap_or("/verif/replays").to_string();
    let time_limit: Option<u64> = arg(args, "--time-limit").and_then(|s| s.parse().ok());
    let known = load_known(arg(args, "--known"));
    // C07: run indices from here on enumerate failing subsets block-wise
    let enum_from: u64 = arg(args, "--enum-from").and_then(|s| s.parse().ok()).unwrap_or(u64::MAX);
    let t0 = Instant::now();

    if prop == Prop::C14 {
        return seq::check_c14(base, runs, threads, out.as_deref(), &replay_dir, build_tag());
    }

    let next = AtomicU64::new(0);
    let stop = AtomicBool::new(false);
    let found: Mutex<Option<(u64, Executed)>> = Mutex::new(None);
    let harness: Mutex<Vec<String>> = Mutex::new(Vec::new());
    let known_hits: Mutex<BTreeMap<String, u64>> = Mutex::new(BTreeMap::new());
    let total = Mutex::new(Stats::new(prop));
    const CHUNK: u64 = 64;

    std::thread::scope(|sc| {
        for _ in 0..threads {
            sc.spawn(|| {
                let mut st = Stats::new(prop);
                let r = std::panic::catch_unwind(std::panic::AssertUnwindSafe(|| {
                    loop {
                        if stop.load(Ordering::Relaxed) {
                            break;
                        }
                        if let Some(tl) = time_limit {
                            if t0.elapsed() > Duration::from_secs(tl) {
                                break;
                            }
                        }
                        let start = next.fetch_add(CHUNK, Ordering::Relaxed);
                        if start >= runs {
                            break;
                        }
                        for index in start..(start + CHUNK).min(runs) {
                            let ex = exec_index(prop, base, index, enum_from);
                            if let Some(h) = &ex.harness_error {
                                harness.lock().unwrap().push(format!("index {index}: {h}"));
                                stop.store(true, Ordering::Relaxed);
                                break;
                            }
                            st.record(&ex);
                            if ex.violation.is_some() {
                                if let Some(k) = matches_known(&known, prop, &ex) {
                                    *known_hits.lock().unwrap().entry(k.text.clone()).or_insert(0) += 1;
                                    continue;
                                }
                                let mut f = found.lock().unwrap();
                                if f.as_ref().map_or(true, |(i, _)| index < *i) {
                                    *f = Some((index, ex));
                                }
                                stop.store(true, Ordering::Relaxed);
                                break;
                            }
                        }
                    }
                }));
                if let Err(p) = r {
                    harness
                        .lock()
                        .unwrap()
                        .push(format!("worker panicked: {}", exec::panic_msg(&p)));
                    stop.store(true, Ordering::Relaxed);
                }
                total.lock().unwrap().merge(st);
            });
        }
    });

    let mut total = total.into_inner().unwrap();
    let harness = harness.into_inner().unwrap();
    if !harness.is_empty() {
        for h in &harness {
            println!("HARNESS-ERROR: {h}");
        }
        return 2;
    }

    // samples: the first three seeds, re-executed for display
    let mut samples = Vec::new();
    for index in 0..3u64.min(runs) {
        let ex = execute_seed(prop, seed_of(base, prop, index));
        samples.push(json!({
            "run_index": index,
            "case": ex.case.to_json(),
            "schedule": runner::schedules_of(&ex).iter().map(|s| spec::schedule_to_json(s)).collect::<Vec<_>>(),
            "trace": ex.result.drives.iter().map(|d| runner::events_json(&d.events)).collect::<Vec<_>>(),
        }));
    }

    let mut violation_json = Value::Null;
    let mut code = 0;
    if let Some((index, ex)) = found.into_inner().unwrap() {
        let v = ex.violation.clone().unwrap();
        let (mcase, msch, mex, tried) = minimise(prop, &ex, &v, Duration::from_secs(8));
        let _ = (&mcase, &msch);
        let (use_ex, minimised) = match &mex.violation {
            Some(mv) if mv.prop == prop && mv.class == v.class => (&mex, true),
            _ => (&ex, false),
        };
        let uv = use_ex.violation.clone().unwrap();
        let _ = std::fs::create_dir_all(&replay_dir);
        let path = format!("{replay_dir}/{}-{}-{}-{}.json", prop.name(), build_tag(), base, index);
        let mut rj = replay_json(prop, base, index, &uv, use_ex, minimised);
        rj["minimisation_candidates_tried"] = json!(tried);
        rj["original_steps"] = json!(runner::schedules_of(&ex).iter().map(|s| s.len()).sum::<usize>());
        rj["original_functions"] = json!(ex.case.graph.fns.len());
        std::fs::write(&path, serde_json::to_string_pretty(&rj).unwrap()).expect("write replay");
        // fresh-process confirmation
        let exe = std::env::current_exe().unwrap();
        let o = std::process::Command::new(exe).arg("replay").arg(&path).output();
        let confirmed = match &o {
            Ok(o) => {
                let so = String::from_utf8_lossy(&o.stdout);
                o.status.code() == Some(1)
                    && so.contains(&format!("class={}", uv.class))
                    && so.contains(rj["trace_hash"].as_str().unwrap())
            }
            Err(_) => false,
        };
        if !confirmed {
            // The case alone does not reproduce: the behaviour depends on state outside
            // the case (something the library keeps across calls - a static, a
            // thread-local).  Fall back to a *history replay*: the run indices 0..=j
            // executed in order by one thread of a fresh process.
            let exe = std::env::current_exe().unwrap();
            let hist = format!("{replay_dir}/{}-{}-{}-history.json", prop.name(), build_tag(), base);
            let scan = std::process::Command::new(&exe)
                .args(["seqscan", "--prop", prop.name(), "--seed", &base.to_string(), "--upto", "60000", "--time-limit", "120", "--out", &hist])
                .args(if enum_from != u64::MAX { vec!["--enum-from".to_string(), enum_from.to_string()] } else { vec![] })
                .output();
            let scan_ok = matches!(&scan, Ok(o) if o.status.code() == Some(1));
            let confirmed2 = scan_ok
                && matches!(std::process::Command::new(&exe).arg("replay").arg(&hist).output(), Ok(o) if o.status.code() == Some(1));
            if confirmed2 {
                let so = String::from_utf8_lossy(&scan.as_ref().unwrap().stdout).to_string();
                print!("{so}");
                println!("note: the violating case does not reproduce in isolation ({path}); it depends on state kept across calls and is reproduced by the history replay");
                println!("VIOLATION property={} replay={}", prop.name(), hist);
                violation_json = json!({"class": uv.class, "message": uv.msg, "replay": hist, "run_index": index, "minimised": false, "history_replay": true});
                code = 1;
            } else {
                println!("HARNESS-ERROR: violation of {} at index {index} did not reproduce from {path} in a fresh process, nor from a sequential history", prop.name());
                if let Ok(o) = o {
                    println!("{}", String::from_utf8_lossy(&o.stdout));
                }
                return 2;
            }
        } else {
            println!("violation: class={} run_index={index} build={} :: {}", uv.class, build_tag(), uv.msg);
            println!("VIOLATION property={} replay={}", prop.name(), path);
            violation_json = json!({"class": uv.class, "message": uv.msg, "replay": path, "run_index": index, "minimised": minimised});
            code = 1;
        }
    }

    let known_hits = known_hits.into_inner().unwrap();
    for (text, count) in &known_hits {
        println!("KNOWN-FINDING: property={} {text} (seen {count} times)", prop.name());
    }

    let wall = t0.elapsed().as_secs_f64();
    if let Some(out) = out {
        let j = total.to_json(build_tag(), base, wall, samples, violation_json, &known_hits);
        std::fs::write(&out, serde_json::to_string(&j).unwrap()).expect("write partial evidence");
    }
    if code == 0 {
        if let Some(missing) = total.required_probe_missing(runs) {
            println!("HARNESS-ERROR: required probe `{missing}` stayed at zero – generator or seam broken");
            return 2;
        }
    }
    code
}

fn exec_index(prop: Prop, base: u64, index: u64, enum_from: u64) -> Executed {
    if prop == Prop::C07 && index >= enum_from {
        let ex = runner::execute_c07_enum(base ^ if FEATURE_I { 0x4949_4949 } else { 0 }, index - enum_from);
        return ex;
    }
    execute_seed(prop, seed_of(base, prop, index))
}

fn cmd_replay(args: &[String]) -> i32 {
    let Some(path) = args.get(2) else {
        eprintln!("usage: fgsim replay <file>");
        return 2;
    };
    let Ok(s) = std::fs::read_to_string(path) else {
        eprintln!("cannot read {path}");
        return 2;
    };
    let Ok(v) = serde_json::from_str::<Value>(&s) else {
        eprintln!("cannot parse {path}");
        return 2;
    };
    if v.get("format").and_then(|f| f.as_str()) == Some("fgsim-seq-replay-1") {
        return seq::replay(&v, path);
    }
    if v.get("format").and_then(|f| f.as_str()) == Some("fgsim-history-replay-1") {
        return replay_history(&v, path);
    }
    let Some(rf) = parse_replay(&v) else {
        eprintln!("not a replay file: {path}");
        return 2;
    };
    if rf.feature_i != FEATURE_I {
        println!("WRONG-BUILD: replay file needs the {} build", if rf.feature_i { "interruptible" } else { "default" });
        return 3;
    }
    let ex = runner::execute_replay(rf.prop, &rf.case, &rf.schedules, rf.vt_exact);
    if let Some(h) = &ex.harness_error {
        println!("HARNESS-ERROR: {h}");
        return 2;
    }
    let hash = format!("{:016x}", result_hash(&ex.result));
    if arg(args, "--trace").is_some() || args.iter().any(|a| a == "--trace") {
        for d in &ex.result.drives {
            for (i, e) in d.events.iter().enumerate() {
                println!("  {i}: {e:?}");
            }
            println!("  --");
        }
    }
    match &ex.violation {
        Some(x) => {
            println!("replayed: class={} trace_hash={hash} :: {}", x.class, x.msg);
            if hash != rf.trace_hash {
                println!("note: trace hash differs from the recorded {}", rf.trace_hash);
            }
            println!("VIOLATION property={} replay={}", rf.prop.name(), path);
            1
        }
        None => {
            println!("replayed: no violation, trace_hash={hash} (recorded class {} hash {})", rf.class, rf.trace_hash);
            0
        }
    }
}

/// Executes run indices 0.. in order in this one thread until a violation shows;
/// writes a history replay file.  (Used when a violation depends on state that the
/// library keeps across calls.)
fn cmd_seqscan(args: &[String]) -> i32 {
    let Some(prop) = arg(args, "--prop").and_then(Prop::from_str) else {
        return 2;
    };
    if prop == Prop::C14 {
        return 2;
    }
    let base = base_seed(args);
    let upto: u64 = arg(args, "--upto").and_then(|s| s.parse().ok()).unwrap_or(10_000);
    let enum_from: u64 = arg(args, "--enum-from").and_then(|s| s.parse().ok()).unwrap_or(u64::MAX);
    let tl: u64 = arg(args, "--time-limit").and_then(|s| s.parse().ok()).unwrap_or(600);
    let t0 = Instant::now();
    for index in 0..=upto {
        if t0.elapsed() > Duration::from_secs(tl) {
            break;
        }
        let ex = exec_index(prop, base, index, enum_from);
        if ex.harness_error.is_some() {
            return 2;
        }
        if let Some(v) = &ex.violation {
            println!("violation: class={} history=0..={index} build={} :: {}", v.class, build_tag(), v.msg);
            if let Some(out) = arg(args, "--out") {
                let j = json!({
                    "format": "fgsim-history-replay-1",
                    "property": prop.name(),
                    "violation_class": v.class,
                    "message": v.msg,
                    "verif_seed": base,
                    "feature_interruptible": FEATURE_I,
                    "execute_run_indices_in_order": {"from": 0, "to": index},
                    "enum_from": if enum_from == u64::MAX { Value::Null } else { json!(enum_from) },
                    "why": "the violating case does not fail in isolation: the library keeps state across calls; the run indices are executed in order by one thread of a fresh process",
                    "last_case": ex.case.to_json(),
                    "last_trace": ex.result.drives.iter().map(|d| runner::events_json(&d.events)).collect::<Vec<_>>(),
                });
                let _ = std::fs::write(out, serde_json::to_string_pretty(&j).unwrap());
            }
            return 1;
        }
    }
    0
}

fn replay_history(v: &Value, path: &str) -> i32 {
    let (Some(prop), Some(base), Some(to)) = (
        v.get("property").and_then(|p| p.as_str()).and_then(Prop::from_str),
        v.get("verif_seed").and_then(|s| s.as_u64()),
        v.get("execute_run_indices_in_order").and_then(|r| r.get("to")).and_then(|t| t.as_u64()),
    ) else {
        return 2;
    };
    if v.get("feature_interruptible").and_then(|b| b.as_bool()) != Some(FEATURE_I) {
        println!("WRONG-BUILD");
        return 3;
    }
    let enum_from = v.get("enum_from").and_then(|e| e.as_u64()).unwrap_or(u64::MAX);
    for index in 0..=to {
        let ex = exec_index(prop, base, index, enum_from);
        if let Some(x) = &ex.violation {
            println!("replayed: class={} at history index {index} of 0..={to} :: {}", x.class, x.msg);
            println!("VIOLATION property={} replay={}", prop.name(), path);
            return 1;
        }
    }
    println!("replayed: no violation in history 0..={to}");
    0
}

fn cmd_determinism(args: &[String]) -> i32 {
    let Some(prop) = arg(args, "--prop").and_then(Prop::from_str) else {
        return 2;
    };
    let runs: u64 = arg(args, "--runs").and_then(|s| s.parse().ok()).unwrap_or(1000);
    let threads: usize = arg(args, "--threads").and_then(|s| s.parse().ok()).unwrap_or(1);
    let base = base_seed(args);
    if prop == Prop::C14 {
        return seq::determinism(base, runs);
    }
    let next = AtomicU64::new(0);
    let table: Mutex<Vec<(u64, u64)>> = Mutex::new(Vec::new());
    let bad = AtomicBool::new(false);
    std::thread::scope(|sc| {
        for _ in 0..threads {
            sc.spawn(|| loop {
                let i = next.fetch_add(1, Ordering::Relaxed);
                if i >= runs {
                    break;
                }
                let a = execute_seed(prop, seed_of(base, prop, i));
                let b = execute_seed(prop, seed_of(base, prop, i));
                let (ha, hb) = (result_hash(&a.result), result_hash(&b.result));
                if ha != hb || a.case != b.case {
                    bad.store(true, Ordering::Relaxed);
                }
                // replaying the recorded schedule must give the same trace, too
                let r = runner::execute_replay(prop, &a.case, &runner::schedules_of(&a), a.vt_exact);
                if result_hash(&r.result) != ha {
                    bad.store(true, Ordering::Relaxed);
                    eprintln!("replay mismatch at index {i}");
                }
                table.lock().unwrap().push((i, ha));
            });
        }
    });
    let mut t = table.into_inner().unwrap();
    t.sort();
    for (i, h) in t {
        println!("{i} {h:016x}");
    }
    if bad.load(Ordering::Relaxed) {
        println!("NONDETERMINISM");
        return 2;
    }
    0
}

fn cmd_show(args: &[String]) -> i32 {
    let Some(prop) = arg(args, "--prop").and_then(Prop::from_str) else {
        return 2;
    };
    let index: u64 = arg(args, "--index").and_then(|s| s.parse().ok()).unwrap_or(0);
    let base = base_seed(args);
    let ex = execute_seed(prop, seed_of(base, prop, index));
    println!("{}", serde_json::to_string_pretty(&ex.case.to_json()).unwrap());
    for p in &ex.sched_params {
        println!("{}", p.to_json());
    }
    for d in &ex.result.drives {
        for (i, e) in d.events.iter().enumerate() {
            println!("  {i}: {e:?}");
        }
        println!("  -- steps {} seams {} mids {}", d.steps, d.seams, d.mids);
    }
    println!("violation: {:?}", ex.violation);
    println!("harness_error: {:?}", ex.harness_error);
    0
}
