//! One case from one seed: generate, execute, evaluate; replay from an explicit
//! schedule; minimise.

use serde_json::{json, Value};

use crate::{
    exec::{run_case, Built, CaseError, CaseResult},
    gen::{gen_case, GenCase, Prop},
    oracle::{self, Violation},
    rng::{mix, Fnv, Rng},
    sched::{ListScheduler, Order, Policy, RandomScheduler, RunSched, SchedParams},
    spec::{Action, CaseSpec, Mode, Step},
    world::{Ev, Scheduler},
};

pub fn seed_for(base: u64, prop: Prop, index: u64) -> u64 {
    mix(&[base, prop.tag(), index])
}

pub struct Executed {
    pub case: CaseSpec,
    pub sched_params: Vec<SchedParams>,
    pub result: CaseResult,
    /// solo re-executions (C20)
    pub solos: Vec<CaseResult>,
    pub violation: Option<Violation>,
    pub harness_error: Option<String>,
    pub vt_exact: bool,
}

fn random_sched(seed: u64, world: usize, params: &[SchedParams], n: usize) -> Box<dyn Scheduler> {
    let runs = params
        .iter()
        .enumerate()
        .map(|(r, p)| RunSched {
            rng: Rng::new(mix(&[seed, 0x5c4ed, world as u64, r as u64])),
            p: p.clone(),
            mids_this_poll: 0,
            burst_left: 0,
            fired_burst: false,
        })
        .collect();
    let mut global = Rng::new(mix(&[seed, 0x610ba1, world as u64]));
    let start_hold = (0..params.len())
        .map(|_| match global.below(4) {
            0 | 1 => 0,
            2 => global.range(1, 6) as u32,
            // up to "the others are nearly done" (a run needs a few steps per function)
            _ => global.range(6, 20 + 3 * n) as u32,
        })
        .collect();
    Box::new(RandomScheduler {
        global,
        runs,
        start_hold,
        steps: 0,
    })
}

pub fn trace_hash(events: &[Ev]) -> u64 {
    let mut h = Fnv::new();
    for e in events {
        e.hash_into(&mut h);
    }
    h.0
}

pub fn result_hash(res: &CaseResult) -> u64 {
    let mut h = Fnv::new();
    for d in &res.drives {
        h.u64(trace_hash(&d.events));
    }
    h.0
}

/// Projection of a schedule onto one run (for the solo re-execution).
fn project(schedule: &[Step], run: usize) -> Vec<Step> {
    schedule
        .iter()
        .filter(|s| s.run == run && s.action != Action::Start)
        .map(|s| Step {
            run: 0,
            action: s.action,
            mids: s.mids.clone(),
        })
        .collect()
}

fn project_events(events: &[Ev], run: usize) -> Vec<Ev> {
    let mut out = Vec::new();
    for e in events {
        if matches!(e, Ev::Wake { .. } | Ev::Idle { .. }) {
            // wake-up bookkeeping is not behaviour (see the history comparison)
            continue;
        }
        let mut e = e.clone();
        let r = match &mut e {
            Ev::Start { run }
            | Ev::PollBegin { run }
            | Ev::Poll { run, .. }
            | Ev::Wake { run, .. }
            | Ev::Idle { run }
            | Ev::Call { run, .. }
            | Ev::FirstPoll { run, .. }
            | Ev::SelfYield { run, .. }
            | Ev::End { run, .. }
            | Ev::GateDropped { run, .. }
            | Ev::Yield { run, .. }
            | Ev::YieldIntrNone { run }
            | Ev::StreamEnd { run }
            | Ev::RefDrop { run, .. }
            | Ev::RefForget { run, .. }
            | Ev::StreamDrop { run }
            | Ev::Release { run, .. }
            | Ev::Interrupt { run, .. }
            | Ev::SenderDrop { run }
            | Ev::Abort { run }
            | Ev::CarriedRefDrop { run, .. }
            | Ev::Return { run, .. }
            | Ev::Panic { run, .. }
            | Ev::Dead { run, .. }
            | Ev::Stalled { run, .. }
            | Ev::LiveCap { run } => run,
            Ev::StepCap => continue,
        };

        if *r == run {
            *r = 0;
            out.push(e);
        }
    }
    out
}

fn has_step_cap(events: &[Ev]) -> bool {
    events.iter().any(|e| matches!(e, Ev::StepCap))
}

fn harness_panic(events: &[Ev]) -> Option<String> {
    events.iter().find_map(|e| match e {
        Ev::Panic { msg, .. } if msg.starts_with("harness:") => Some(msg.clone()),
        _ => None,
    })
}

/// Evaluates the property over an executed case.
pub fn vt_discipline(sched_params: &[SchedParams]) -> bool {
    sched_params.first().map_or(false, |p| {
        p.policy == Policy::PollEager && p.order == Order::VirtualTime && p.spurious_16 == 0 && p.mid_16 == 0
    })
}

pub fn evaluate(
    prop: Prop,
    case: &CaseSpec,
    vt_exact: bool,
    result: &CaseResult,
    solos: &[CaseResult],
) -> Option<Violation> {
    let built = &result.built;
    match case.mode {
        Mode::Single => {
            let d = &result.drives[0];
            let rs = &case.runs[0];
            if let Some(v) = oracle::check_run(prop, case, built, &d.events, 0, rs) {
                return Some(v);
            }
            let _ = vt_exact;
            if prop == Prop::C06 && d.vt_ok[0] && !has_step_cap(&d.events) {
                let t = oracle::digest(&d.events, 0, built.n);
                if let Some(v) = oracle::check_c06_makespan(built, &t, rs, d.makespan[0]) {
                    return Some(v);
                }
            }
            None
        }
        Mode::History if prop != Prop::C15 => {
            // the property's own oracle on every run of the history
            for (i, rs) in case.runs.iter().enumerate() {
                if let Some(mut v) = oracle::check_run(prop, case, built, &result.drives[i].events, 0, rs) {
                    v.msg = format!("run {i} of a history of {} runs on one graph value: {}", case.runs.len(), v.msg);
                    v.run = i;
                    return Some(v);
                }
            }
            None
        }
        Mode::Concurrent if prop != Prop::C20 => {
            let d = &result.drives[0];
            if has_step_cap(&d.events) {
                return None;
            }
            for (r, rs) in case.runs.iter().enumerate() {
                if let Some(mut v) = oracle::check_run(prop, case, built, &d.events, r, rs) {
                    v.msg = format!("run {r} of {} simultaneous runs: {}", case.runs.len(), v.msg);
                    return Some(v);
                }
            }
            None
        }
        Mode::History => {
            let k = case.runs.len();
            let reused = &result.drives[k - 1];
            let fresh = &result.drives[k];
            // compared modulo wake-up bookkeeping: a spurious wake-up (or the lack of one
            // that an earlier poll made unnecessary) is not behaviour; a *lost* one shows
            // as a dead / stalled state, which is kept
            let sem = |ev: &[Ev]| -> Vec<Ev> {
                ev.iter()
                    .filter(|e| !matches!(e, Ev::Wake { .. } | Ev::Idle { .. }))
                    .cloned()
                    .collect()
            };
            let (reused_ev, fresh_ev) = (sem(&reused.events), sem(&fresh.events));
            if reused_ev != fresh_ev {
                let pos = reused_ev
                    .iter()
                    .zip(fresh_ev.iter())
                    .position(|(a, b)| a != b)
                    .unwrap_or(reused_ev.len().min(fresh_ev.len()));
                return Some(Violation {
                    prop: Prop::C15,
                    class: "history-dependence",
                    run: k - 1,
                    msg: format!(
                        "run {} on the reused graph diverges from the same run on a fresh graph at event {pos}: reused {:?} / fresh {:?}",
                        k - 1,
                        reused_ev.get(pos),
                        fresh_ev.get(pos)
                    ),
                });
            }
            None
        }
        Mode::Concurrent => {
            let d = &result.drives[0];
            if has_step_cap(&d.events) {
                return None;
            }
            for (r, rs) in case.runs.iter().enumerate() {
                if let Some(mut v) = oracle::check_all_single(case, built, &d.events, r, rs) {
                    v.msg = format!("run {r} among {} simultaneous runs violates {}: {}", case.runs.len(), v.prop.name(), v.msg);
                    v.prop = Prop::C20;
                    return Some(v);
                }
            }
            for (r, solo) in solos.iter().enumerate() {
                let a = project_events(&d.events, r);
                let b = project_events(&solo.drives[0].events, 0);
                if a != b {
                    let pos = a.iter().zip(b.iter()).position(|(x, y)| x != y).unwrap_or(a.len().min(b.len()));
                    return Some(Violation {
                        prop: Prop::C20,
                        class: "interference",
                        run: r,
                        msg: format!(
                            "run {r} behaves differently next to the other runs than alone, from its event {pos}: together {:?} / alone {:?}",
                            a.get(pos),
                            b.get(pos)
                        ),
                    });
                }
            }
            None
        }
    }
}

fn solo_cases(prop: Prop, case: &CaseSpec, result: &CaseResult) -> Result<Vec<CaseResult>, CaseError> {
    let mut out = Vec::new();
    if case.mode != Mode::Concurrent || prop != Prop::C20 {
        return Ok(out);
    }
    let sched = &result.drives[0].schedule;
    for r in 0..case.runs.len() {
        let solo = CaseSpec {
            graph: case.graph.clone(),
            runs: vec![case.runs[r].clone()],
            mode: Mode::Single,
        };
        let steps = project(sched, r);
        let res = run_case(&solo, &mut |_| Box::new(ListScheduler::new(steps.clone())))?;
        out.push(res);
    }
    Ok(out)
}

pub const ENUM_BLOCK: u64 = 31 * 64;

/// C07 fault enumeration: run indices are grouped in blocks of 31 x 64; one block =
/// one sampled graph of 1..=5 functions and one API/options choice, every non-empty
/// subset of failing functions, 64 (or more, for smaller graphs) schedules each.
pub fn execute_c07_enum(base: u64, index: u64) -> Executed {
    let block = index / ENUM_BLOCK;
    let j = index % ENUM_BLOCK;
    let block_seed = mix(&[base, 0xC07E, block]);
    let mut rng = Rng::new(block_seed);
    let GenCase { mut case, sched: _ } = crate::gen::gen_case_small_try(&mut rng);
    let n = case.graph.fns.len();
    let subsets = (1u64 << n) - 1;
    let subset = (j / 64) % subsets + 1;
    for (i, g) in case.runs[0].gates.iter_mut().enumerate() {
        g.fail = subset & (1 << i) != 0;
    }
    let seed = mix(&[block_seed, j]);
    let mut srng = Rng::new(seed);
    let sched = vec![crate::gen::gen_sched(&mut srng, &case.runs[0], Prop::C07)];
    // user-function behaviour varies with the schedule, the failing subset does not
    for g in case.runs[0].gates.iter_mut() {
        g.immediate = srng.chance(1, 4);
        g.yields = if srng.chance(1, 8) { 1 } else { 0 };
    }
    execute_generated(Prop::C07, seed, case, sched)
}

/// Generate + execute + evaluate the case of one seed.
pub fn execute_seed(prop: Prop, seed: u64) -> Executed {
    let mut rng = Rng::new(seed);
    let GenCase { case, sched } = gen_case(prop, &mut rng);
    execute_generated(prop, seed, case, sched)
}

pub fn execute_generated(prop: Prop, seed: u64, case: CaseSpec, sched: Vec<SchedParams>) -> Executed {
    let res = run_case(&case, &mut |world| {
        let params: Vec<SchedParams> = match case.mode {
            // world k is the reference: the last run on a fresh graph
            Mode::History => vec![sched[world.min(case.runs.len() - 1)].clone()],
            _ => sched.clone(),
        };
        random_sched(seed, world, &params, case.graph.fns.len())
    });
    let vt = vt_discipline(&sched);
    finish(prop, case, sched, vt, res)
}

fn finish(prop: Prop, case: CaseSpec, sched: Vec<SchedParams>, vt_exact: bool, res: Result<CaseResult, CaseError>) -> Executed {
    match res {
        Err(CaseError::BuildPanic(m)) => Executed {
            case,
            sched_params: sched,
            result: CaseResult {
                drives: Vec::new(),
                built: Built::default(),
            },
            solos: Vec::new(),
            violation: None,
            harness_error: Some(format!("build() panicked: {m}")),
            vt_exact,
        },
        Ok(result) => {
            let mut harness_error = result.drives.iter().find_map(|d| harness_panic(&d.events));
            let solos = match solo_cases(prop, &case, &result) {
                Ok(s) => s,
                Err(CaseError::BuildPanic(m)) => {
                    harness_error = Some(format!("build() panicked: {m}"));
                    Vec::new()
                }
            };
            let violation = if harness_error.is_none() {
                evaluate(prop, &case, vt_exact, &result, &solos)
            } else {
                None
            };
            Executed {
                case,
                sched_params: sched,
                result,
                solos,
                violation,
                harness_error,
                vt_exact,
            }
        }
    }
}

/// Re-executes a case from explicit schedules (one per world).
/// `vt_exact`: the schedule was produced under the virtual-time discipline, so
/// the makespan clause of C06 applies to it.
pub fn execute_replay(prop: Prop, case: &CaseSpec, schedules: &[Vec<Step>], vt_exact: bool) -> Executed {
    let res = run_case(case, &mut |world| {
        let steps = schedules.get(world).cloned().unwrap_or_default();
        Box::new(ListScheduler::new(steps))
    });
    let mut ex = finish(prop, case.clone(), Vec::new(), vt_exact, res);
    ex.vt_exact = vt_exact;
    ex
}

pub fn schedules_of(ex: &Executed) -> Vec<Vec<Step>> {
    let k = match ex.case.mode {
        // the runs on the reused graph, then the reference on the fresh graph (whose
        // schedule the last reused-graph run executes)
        Mode::History => ex.case.runs.len() + 1,
        _ => 1,
    };
    ex.result.drives.iter().take(k).map(|d| d.schedule.clone()).collect()
}

// ---------------------------------------------------------------------------
// Replay files

pub fn events_json(events: &[Ev]) -> Value {
    Value::Array(
        events
            .iter()
            .enumerate()
            .filter(|(_, e)| !matches!(e, Ev::Wake { .. } | Ev::FirstPoll { .. }))
            .map(|(i, e)| json!(format!("{i}: {e:?}")))
            .collect(),
    )
}

pub fn replay_json(prop: Prop, base_seed: u64, index: u64, v: &Violation, ex: &Executed, minimised: bool) -> Value {
    let schedules = schedules_of(ex);
    json!({
        "format": "fgsim-replay-1",
        "property": prop.name(),
        "violation_class": v.class,
        "message": v.msg,
        "violating_run": v.run,
        "verif_seed": base_seed,
        "run_index": index,
        "feature_interruptible": crate::gen::FEATURE_I,
        "minimised": minimised,
        "virtual_time_discipline": ex.vt_exact,
        "case": ex.case.to_json(),
        "scheduler_params": ex.sched_params.iter().map(|p| p.to_json()).collect::<Vec<_>>(),
        "schedules": schedules.iter().map(|s| crate::spec::schedule_to_json(s)).collect::<Vec<_>>(),
        "trace_hash": format!("{:016x}", result_hash(&ex.result)),
        "trace": ex.result.drives.iter().map(|d| events_json(&d.events)).collect::<Vec<_>>(),
    })
}

pub struct ReplayFile {
    pub prop: Prop,
    pub class: String,
    pub case: CaseSpec,
    pub schedules: Vec<Vec<Step>>,
    pub trace_hash: String,
    pub feature_i: bool,
    pub vt_exact: bool,
}

pub fn parse_replay(v: &Value) -> Option<ReplayFile> {
    let mut schedules = Vec::new();
    for s in v.get("schedules")?.as_array()? {
        schedules.push(crate::spec::schedule_from_json(s)?);
    }
    Some(ReplayFile {
        prop: Prop::from_str(v.get("property")?.as_str()?)?,
        class: v.get("violation_class")?.as_str()?.to_string(),
        case: CaseSpec::from_json(v.get("case")?)?,
        schedules,
        trace_hash: v.get("trace_hash")?.as_str()?.to_string(),
        feature_i: v.get("feature_interruptible")?.as_bool()?,
        vt_exact: v.get("virtual_time_discipline").and_then(|x| x.as_bool()).unwrap_or(false),
    })
}

// ---------------------------------------------------------------------------
// Minimisation (delta debugging under a time budget)

fn remove_fn(case: &CaseSpec, schedules: &[Vec<Step>], i: usize) -> (CaseSpec, Vec<Vec<Step>>) {
    let mut c = case.clone();
    c.graph.fns.remove(i);
    c.graph.calls.retain(|e| e.from != i && e.to != i);
    for e in c.graph.calls.iter_mut() {
        if e.from > i {
            e.from -= 1;
        }
        if e.to > i {
            e.to -= 1;
        }
    }
    for r in c.runs.iter_mut() {
        if i < r.gates.len() {
            r.gates.remove(i);
        }
    }
    let fix = |a: Action| -> Option<Action> {
        let m = |x: usize| if x > i { x - 1 } else { x };
        Some(match a {
            Action::Release(x) if x == i => return None,
            Action::DropRef(x) if x == i => return None,
            Action::ForgetRef(x) if x == i => return None,
            Action::Release(x) => Action::Release(m(x)),
            Action::DropRef(x) => Action::DropRef(m(x)),
            Action::ForgetRef(x) => Action::ForgetRef(m(x)),
            o => o,
        })
    };
    let s = schedules
        .iter()
        .map(|sch| {
            sch.iter()
                .filter_map(|st| {
                    fix(st.action).map(|a| Step {
                        run: st.run,
                        action: a,
                        mids: st.mids.iter().filter_map(|(o, m)| fix(*m).map(|m| (*o, m))).collect(),
                    })
                })
                .collect()
        })
        .collect();
    (c, s)
}

pub fn minimise(
    prop: Prop,
    ex: &Executed,
    v: &Violation,
    budget: std::time::Duration,
) -> (CaseSpec, Vec<Vec<Step>>, Executed, u32) {
    let t0 = std::time::Instant::now();
    let mut case = ex.case.clone();
    let mut sch = schedules_of(ex);
    let mut tried = 0u32;
    let class = v.class;
    let vt_exact = ex.vt_exact;
    let still = |c: &CaseSpec, s: &[Vec<Step>], tried: &mut u32| -> Option<Executed> {
        *tried += 1;
        let e = execute_replay(prop, c, s, vt_exact);
        match &e.violation {
            Some(x) if x.prop == prop && x.class == class && e.harness_error.is_none() => Some(e),
            _ => None,
        }
    };
    // the replay of the unshrunk case must itself reproduce
    let mut best = match still(&case, &sch, &mut tried) {
        Some(e) => e,
        None => {
            return (case.clone(), sch.clone(), execute_replay(prop, &case, &sch, vt_exact), tried);
        }
    };
    let over = |t0: &std::time::Instant| t0.elapsed() > budget;
    let mut progress = true;
    while progress && !over(&t0) {
        progress = false;
        // 1. runs (history prefix / concurrent companions)
        if case.runs.len() > 1 {
            let mut r = 0;
            while r < case.runs.len() && case.runs.len() > 1 && !over(&t0) {
                let last = case.runs.len() - 1;
                if case.mode == Mode::History && r == last {
                    break;
                }
                let mut c = case.clone();
                c.runs.remove(r);
                let s: Vec<Vec<Step>> = match case.mode {
                    Mode::History => {
                        let mut s = sch.clone();
                        if r < s.len() {
                            s.remove(r);
                        }
                        s
                    }
                    _ => sch
                        .iter()
                        .map(|x| {
                            x.iter()
                                .filter(|st| st.run != r)
                                .map(|st| Step {
                                    run: if st.run > r { st.run - 1 } else { st.run },
                                    ..st.clone()
                                })
                                .collect()
                        })
                        .collect(),
                };
                if c.mode == Mode::Concurrent && c.runs.len() == 1 {
                    // keep it concurrent-shaped: the differential still applies
                }
                if let Some(e) = still(&c, &s, &mut tried) {
                    case = c;
                    sch = s;
                    best = e;
                    progress = true;
                } else {
                    r += 1;
                }
            }
        }
        // 2. functions
        let mut i = case.graph.fns.len();
        while i > 0 && !over(&t0) {
            i -= 1;
            let (c, s) = remove_fn(&case, &sch, i);
            if let Some(e) = still(&c, &s, &mut tried) {
                case = c;
                sch = s;
                best = e;
                progress = true;
            }
        }
        // 3. builder calls
        let mut i = case.graph.calls.len();
        while i > 0 && !over(&t0) {
            i -= 1;
            let mut c = case.clone();
            c.graph.calls.remove(i);
            if let Some(e) = still(&c, &sch, &mut tried) {
                case = c;
                best = e;
                progress = true;
            }
        }
        // 4. declarations
        for i in 0..case.graph.fns.len() {
            for k in 0..crate::spec::N_TYPES {
                for which in 0..2 {
                    if over(&t0) {
                        break;
                    }
                    let bit = 1u16 << k;
                    let f = &case.graph.fns[i];
                    let set = if which == 0 { f.reads & bit } else { f.writes & bit };
                    if set == 0 {
                        continue;
                    }
                    let mut c = case.clone();
                    if which == 0 {
                        c.graph.fns[i].reads &= !bit;
                    } else {
                        c.graph.fns[i].writes &= !bit;
                    }
                    if let Some(e) = still(&c, &sch, &mut tried) {
                        case = c;
                        best = e;
                        progress = true;
                    }
                }
            }
        }
        // 5. fault plan and options
        for r in 0..case.runs.len() {
            let ng = case.runs[r].gates.len();
            let mut edits: Vec<Edit> = Vec::new();
            for g in 0..ng {
                edits.extend([Edit::NoYield(g), Edit::NoOddWake(g), Edit::NoFail(g), Edit::Immediate(g)]);
            }
            edits.extend([
                Edit::NoLimit,
                Edit::Forward,
                Edit::Lenient,
                Edit::FewerSignals,
                Edit::NoMay,
                Edit::Include,
            ]);
            for ed in edits {
                if over(&t0) {
                    break;
                }
                let mut c = case.clone();
                if !ed.apply(&mut c.runs[r]) {
                    continue;
                }
                if let Some(e) = still(&c, &sch, &mut tried) {
                    case = c;
                    best = e;
                    progress = true;
                }
            }
        }
        // 6. schedule steps: chunks, then singles, then inside-poll events
        for w in 0..sch.len() {
            let mut chunk = (sch[w].len() / 2).max(1);
            while chunk >= 1 && !over(&t0) {
                let mut i = 0;
                while i < sch[w].len() && !over(&t0) {
                    let mut s = sch.clone();
                    let end = (i + chunk).min(s[w].len());
                    s[w].drain(i..end);
                    if let Some(e) = still(&case, &s, &mut tried) {
                        sch = s;
                        best = e;
                        progress = true;
                    } else {
                        i += chunk;
                    }
                }
                if chunk == 1 {
                    break;
                }
                chunk /= 2;
            }
            for i in 0..sch[w].len() {
                if over(&t0) {
                    break;
                }
                if !sch[w][i].mids.is_empty() {
                    let mut s = sch.clone();
                    s[w][i].mids.clear();
                    if let Some(e) = still(&case, &s, &mut tried) {
                        sch = s;
                        best = e;
                        progress = true;
                    }
                }
            }
        }
    }
    // canonical form: the schedule actually executed by the final replay
    let final_sch = schedules_of(&best);
    if let Some(e) = still(&case, &final_sch, &mut tried) {
        return (case, final_sch, e, tried);
    }
    (case, sch, best, tried)
}

#[derive(Clone, Copy)]
enum Edit {
    NoYield(usize),
    NoOddWake(usize),
    NoFail(usize),
    Immediate(usize),
    NoLimit,
    Forward,
    Lenient,
    FewerSignals,
    NoMay,
    Include,
}

impl Edit {
    /// Applies the simplification; false if it changes nothing.
    fn apply(self, rs: &mut crate::spec::RunSpec) -> bool {
        match self {
            Edit::NoYield(g) => {
                let ch = rs.gates[g].yields > 0;
                rs.gates[g].yields = 0;
                ch
            }
            Edit::NoOddWake(g) => {
                let ch = rs.gates[g].wake_twice || rs.gates[g].stale_wake;
                rs.gates[g].wake_twice = false;
                rs.gates[g].stale_wake = false;
                ch
            }
            Edit::NoFail(g) => {
                let ch = rs.gates[g].fail;
                rs.gates[g].fail = false;
                ch
            }
            Edit::Immediate(g) => {
                let ch = !rs.gates[g].immediate;
                rs.gates[g].immediate = true;
                ch
            }
            Edit::NoLimit => {
                let ch = rs.limit.is_some();
                rs.limit = None;
                ch
            }
            Edit::Forward => {
                let ch = rs.reverse;
                rs.reverse = false;
                ch
            }
            Edit::Lenient => {
                let ch = rs.strict_waker;
                rs.strict_waker = false;
                ch
            }
            Edit::FewerSignals => {
                let ch = rs.signals > 0;
                rs.signals = rs.signals.saturating_sub(1);
                ch
            }
            Edit::NoMay => {
                let ch = rs.may_abort || rs.may_forget || rs.may_drop_sender || rs.unwind_drop_mask != 0 || rs.leave_refs;
                rs.leave_refs = false;
                rs.unwind_drop_mask = 0;
                rs.may_abort = false;
                rs.may_forget = false;
                rs.may_drop_sender = false;
                ch
            }
            Edit::Include => {
                let ch = !rs.include;
                rs.include = true;
                ch
            }
        }
    }
}
