//! Shared state of one simulation: trace, user-function gates, wakers, the
//! seams through which the simulator regains control *inside* a library poll.

use std::{
    cell::{Cell, RefCell},
    future::Future,
    marker::PhantomData,
    ops::ControlFlow,
    pin::Pin,
    rc::Rc,
    sync::Arc,
    task::{Context, Poll, RawWaker, RawWakerVTable, Waker},
};

use fn_graph::{DataAccessDyn, FnRef, TypeIds};

use crate::spec::{Action, GateSpec, RunSpec, Step, N_TYPES};

pub const MAX_RUNS: usize = 12;

// ---------------------------------------------------------------------------
// The function type stored in the graph.

pub struct T0;
pub struct T1;
pub struct T2;
pub struct T3;
pub struct T4;
pub struct T5;
pub struct T6;
pub struct T7;
pub struct T8;
pub struct T9;
pub struct T10;
pub struct T11;

pub fn type_id_of(k: usize) -> std::any::TypeId {
    use std::any::TypeId;
    match k {
        0 => TypeId::of::<T0>(),
        1 => TypeId::of::<T1>(),
        2 => TypeId::of::<T2>(),
        3 => TypeId::of::<T3>(),
        4 => TypeId::of::<T4>(),
        5 => TypeId::of::<T5>(),
        6 => TypeId::of::<T6>(),
        7 => TypeId::of::<T7>(),
        8 => TypeId::of::<T8>(),
        9 => TypeId::of::<T9>(),
        10 => TypeId::of::<T10>(),
        11 => TypeId::of::<T11>(),
        _ => unreachable!(),
    }
}

/// 1024 further distinct types for the functions' private data
pub struct Own<const N: usize>;

macro_rules! own_ids {
    ($($hi:literal)*) => {
        [ $( own_row!($hi) ),* ]
    };
}
macro_rules! own_row {
    ($hi:literal) => {
        [
            std::any::TypeId::of::<Own<{ $hi * 32 + 0 }>>(), std::any::TypeId::of::<Own<{ $hi * 32 + 1 }>>(),
            std::any::TypeId::of::<Own<{ $hi * 32 + 2 }>>(), std::any::TypeId::of::<Own<{ $hi * 32 + 3 }>>(),
            std::any::TypeId::of::<Own<{ $hi * 32 + 4 }>>(), std::any::TypeId::of::<Own<{ $hi * 32 + 5 }>>(),
            std::any::TypeId::of::<Own<{ $hi * 32 + 6 }>>(), std::any::TypeId::of::<Own<{ $hi * 32 + 7 }>>(),
            std::any::TypeId::of::<Own<{ $hi * 32 + 8 }>>(), std::any::TypeId::of::<Own<{ $hi * 32 + 9 }>>(),
            std::any::TypeId::of::<Own<{ $hi * 32 + 10 }>>(), std::any::TypeId::of::<Own<{ $hi * 32 + 11 }>>(),
            std::any::TypeId::of::<Own<{ $hi * 32 + 12 }>>(), std::any::TypeId::of::<Own<{ $hi * 32 + 13 }>>(),
            std::any::TypeId::of::<Own<{ $hi * 32 + 14 }>>(), std::any::TypeId::of::<Own<{ $hi * 32 + 15 }>>(),
            std::any::TypeId::of::<Own<{ $hi * 32 + 16 }>>(), std::any::TypeId::of::<Own<{ $hi * 32 + 17 }>>(),
            std::any::TypeId::of::<Own<{ $hi * 32 + 18 }>>(), std::any::TypeId::of::<Own<{ $hi * 32 + 19 }>>(),
            std::any::TypeId::of::<Own<{ $hi * 32 + 20 }>>(), std::any::TypeId::of::<Own<{ $hi * 32 + 21 }>>(),
            std::any::TypeId::of::<Own<{ $hi * 32 + 22 }>>(), std::any::TypeId::of::<Own<{ $hi * 32 + 23 }>>(),
            std::any::TypeId::of::<Own<{ $hi * 32 + 24 }>>(), std::any::TypeId::of::<Own<{ $hi * 32 + 25 }>>(),
            std::any::TypeId::of::<Own<{ $hi * 32 + 26 }>>(), std::any::TypeId::of::<Own<{ $hi * 32 + 27 }>>(),
            std::any::TypeId::of::<Own<{ $hi * 32 + 28 }>>(), std::any::TypeId::of::<Own<{ $hi * 32 + 29 }>>(),
            std::any::TypeId::of::<Own<{ $hi * 32 + 30 }>>(), std::any::TypeId::of::<Own<{ $hi * 32 + 31 }>>(),
        ]
    };
}

/// TypeId of private type number `k` (k < 1024)
pub fn own_type_id(k: usize) -> std::any::TypeId {
    thread_local! {
        static TABLE: [[std::any::TypeId; 32]; 32] = own_ids!(0 1 2 3 4 5 6 7 8 9 10 11 12 13 14 15 16 17 18 19 20 21 22 23 24 25 26 27 28 29 30 31);
    }
    TABLE.with(|t| t[(k / 32) % 32][k % 32])
}

#[derive(Clone, Debug, PartialEq, Eq)]
pub struct SimFn {
    pub id: usize,
    pub reads: u16,
    pub writes: u16,
    pub style: u8,
    pub own: u8,
    /// bumped by the `mut` APIs (user-visible mutation through `&mut F`)
    pub visits: u32,
}

impl SimFn {
    fn list(&self, mask: u16) -> TypeIds {
        let mut ks: Vec<usize> = (0..N_TYPES).filter(|k| mask & (1 << k) != 0).collect();
        if self.style & 2 != 0 {
            ks.reverse();
        }
        if self.style & 4 != 0 {
            if let Some(&first) = ks.first() {
                ks.push(first);
            }
        }
        let mut t = if self.style & 1 != 0 {
            TypeIds::with_capacity(16)
        } else {
            TypeIds::new()
        };
        for k in ks {
            t.push(type_id_of(k));
        }
        t
    }
}

impl DataAccessDyn for SimFn {
    fn borrows(&self) -> TypeIds {
        let also = if self.style & 8 != 0 { self.writes } else { 0 };
        self.list(self.reads | also)
    }

    fn borrow_muts(&self) -> TypeIds {
        let mut t = self.list(self.writes);
        // private types: unique to this function while id * 2 + j < 1024, so they never
        // conflict with anything
        for j in 0..(self.own as usize).min(2) {
            let k = self.id * 2 + j;
            if k < 1024 {
                t.push(own_type_id(k));
            }
        }
        t
    }
}

// ---------------------------------------------------------------------------
// Trace

#[derive(Clone, Debug, PartialEq, Eq)]
pub enum OutKind {
    /// plain StreamOutcome (fold / for_each)
    Plain,
    Ok,
    Err,
    Continue,
    Break,
}

#[derive(Clone, Copy, Debug, PartialEq, Eq)]
pub enum OutState {
    NotStarted,
    Interrupted,
    Finished,
}

#[derive(Clone, Debug, PartialEq, Eq)]
pub struct OutcomeRec {
    pub kind: OutKind,
    /// absent for `try_fold_async*` returning Err(e)
    pub state: Option<OutState>,
    pub processed: Vec<usize>,
    pub not_processed: Vec<usize>,
    /// fold seed: ids in the order the fold closure completed them
    pub value: Option<Vec<usize>>,
    /// errors carried by Err / Break
    pub errors: Vec<usize>,
}

#[derive(Clone, Debug, PartialEq, Eq)]
pub enum Ev {
    Start { run: usize },
    /// a poll of the run's future / stream begins; everything up to the matching
    /// `Poll` event happens inside it
    PollBegin { run: usize },
    Poll { run: usize, ready: bool },
    Wake { run: usize, counted: bool },
    Idle { run: usize },
    Call { run: usize, id: usize },
    FirstPoll { run: usize, id: usize },
    SelfYield { run: usize, id: usize },
    End { run: usize, id: usize, ok: bool },
    GateDropped { run: usize, id: usize },
    /// stream yielded a function (interrupted = wrapped in `Interrupted(Some)`)
    Yield { run: usize, id: usize, interrupted: bool },
    /// stream yielded `Interrupted(None)`
    YieldIntrNone { run: usize },
    StreamEnd { run: usize },
    RefDrop { run: usize, id: usize },
    RefForget { run: usize, id: usize },
    StreamDrop { run: usize },
    Release { run: usize, id: usize },
    /// exact = every function handed out before the signal had been invoked, so that
    /// "functions started after the signal" can be counted from closure calls
    Interrupt { run: usize, delivered: bool, exact: bool },
    SenderDrop { run: usize },
    Abort { run: usize },
    /// an FnRef of an earlier, dropped stream is dropped during this run
    CarriedRefDrop { run: usize, slot: usize },
    Return { run: usize, outcome: OutcomeRec },
    Panic { run: usize, msg: String },
    /// pending, no wake-up scheduled, nothing external left that could wake it
    Dead { run: usize, why: &'static str },
    /// stream pending, no wake-up scheduled, function `id` is releasable
    Stalled { run: usize, id: usize },
    /// did not return within the poll budget after the last external event
    LiveCap { run: usize },
    /// step cap reached while external actions were still being chosen
    StepCap,
}

impl Ev {
    pub fn hash_into(&self, h: &mut crate::rng::Fnv) {
        // cheap but injective enough: debug formatting is deterministic
        let s = format!("{self:?}");
        h.bytes(s.as_bytes());
        h.u8(0xff);
    }
}

// ---------------------------------------------------------------------------
// Gates

#[derive(Debug, Default)]
pub struct GateSlot {
    pub spec: GateSpec,
    pub called: bool,
    pub first_polled: bool,
    pub released: bool,
    pub ended: bool,
    pub dropped: bool,
    pub yields_left: u8,
    pub waker: Option<Waker>,
    pub prev_waker: Option<Waker>,
    /// virtual finish time
    pub finish: u64,
    pub call_seq: u64,
}

pub trait GateOut: 'static {
    fn ok() -> Self;
    fn fail(id: usize) -> Self;
}
impl GateOut for () {
    fn ok() {}
    fn fail(_: usize) {}
}
impl GateOut for Result<(), usize> {
    fn ok() -> Self {
        Ok(())
    }
    fn fail(id: usize) -> Self {
        Err(id)
    }
}
impl GateOut for ControlFlow<usize, ()> {
    fn ok() -> Self {
        ControlFlow::Continue(())
    }
    fn fail(id: usize) -> Self {
        ControlFlow::Break(id)
    }
}

pub struct Gate<O> {
    world: Rc<World>,
    run: usize,
    id: usize,
    _o: PhantomData<fn() -> O>,
}

impl<O> Unpin for Gate<O> {}

impl<O: GateOut> Future for Gate<O> {
    type Output = O;

    fn poll(self: Pin<&mut Self>, cx: &mut Context<'_>) -> Poll<O> {
        let w = self.world.clone();
        let (run, id) = (self.run, self.id);
        w.seam(SeamKind::GatePoll);

        enum Todo {
            SelfYield,
            Ready(bool),
            Store,
        }
        let todo = {
            let mut runs = w.runs.borrow_mut();
            let rs = &mut runs[run];
            let g = &mut rs.gates[id];
            if !g.first_polled {
                g.first_polled = true;
                w.push(Ev::FirstPoll { run, id });
            }
            if g.ended {
                // polled after completion: a library bug would show elsewhere; be inert
                Todo::Ready(!g.spec.fail)
            } else if g.yields_left > 0 {
                g.yields_left -= 1;
                rs.self_yields_in_poll += 1;
                w.push(Ev::SelfYield { run, id });
                Todo::SelfYield
            } else if g.spec.immediate || g.released {
                g.ended = true;
                g.waker = None;
                g.prev_waker = None;
                let ok = !g.spec.fail;
                w.push(Ev::End { run, id, ok });
                Todo::Ready(ok)
            } else {
                Todo::Store
            }
        };
        match todo {
            Todo::SelfYield => {
                cx.waker().wake_by_ref();
                Poll::Pending
            }
            Todo::Ready(ok) => Poll::Ready(if ok { O::ok() } else { O::fail(id) }),
            Todo::Store => {
                // cloning the waker is itself a seam: an event may land right here
                let mut wk = Some(cx.waker().clone());
                let (old, completed) = {
                    let mut runs = w.runs.borrow_mut();
                    let g = &mut runs[run].gates[id];
                    if g.released {
                        // register-then-recheck, as any sound leaf future does
                        g.ended = true;
                        g.waker = None;
                        g.prev_waker = None;
                        let ok = !g.spec.fail;
                        w.push(Ev::End { run, id, ok });
                        (None, Some(ok))
                    } else {
                        let old_prev = g.prev_waker.take();
                        g.prev_waker = g.waker.take();
                        g.waker = wk.take();
                        (old_prev, None)
                    }
                };
                drop(old);
                drop(wk);
                match completed {
                    Some(ok) => Poll::Ready(if ok { O::ok() } else { O::fail(id) }),
                    None => Poll::Pending,
                }
            }
        }
    }
}

impl<O> Drop for Gate<O> {
    fn drop(&mut self) {
        let w = &self.world;
        let wakers = {
            let Ok(mut runs) = w.runs.try_borrow_mut() else {
                return;
            };
            let Some(rs) = runs.get_mut(self.run) else {
                return;
            };
            let g = &mut rs.gates[self.id];
            if !g.ended && !g.dropped {
                g.dropped = true;
                w.push(Ev::GateDropped {
                    run: self.run,
                    id: self.id,
                });
            }
            (g.waker.take(), g.prev_waker.take())
        };
        drop(wakers);
    }
}

// ---------------------------------------------------------------------------
// Per-run simulator state

pub struct RunState {
    pub spec: RunSpec,
    pub family_counts_calls_exactly: bool,
    pub gates: Vec<GateSlot>,
    pub started: bool,
    pub finished: bool,
    pub aborted: bool,
    /// stream consumer: stream value still alive
    pub stream_alive: bool,
    pub stream_ended: bool,
    pub polls: usize,
    pub last_pending: bool,
    /// no self-wake was outstanding when the last poll returned (or never polled)
    pub settled: bool,
    /// the last poll returned without the task's waker having been woken *during* the
    /// poll (wake-ups that tokio deferred because the cooperative budget ran out arrive
    /// afterwards and do not count): futures' (Try)ForEachConcurrent / FuturesUnordered
    /// only leave a pushed future unpolled when they wake the task themselves, so every
    /// function the ready stream handed out has had its closure invoked
    pub handouts_started: bool,
    pub self_yields_in_poll: usize,
    pub intr_tx: Option<IntrTx>,
    pub signals_left: u8,
    pub sender_dropped: bool,
    pub held: Vec<(usize, FnRef<'static, SimFn>)>,
    /// FnRefs left over from the previous run's stream (None = empty slot)
    pub carried: Vec<Option<FnRef<'static, SimFn>>>,
    pub carried_done: Vec<bool>,
    pub held_finish: Vec<(usize, u64)>,
    pub vnow: u64,
    pub polls_since_external: usize,
    pub max_polls_since_external: usize,
    pub call_counter: u64,
    pub yielded: Vec<bool>,
    pub ref_dropped: Vec<bool>,
    pub intr_delivered: bool,
    /// stream runs: per function, predecessors (in the run's direction) whose FnRef
    /// has not been dropped yet
    pub undropped_preds: Vec<usize>,
    pub succs_dir: Vec<Vec<usize>>,
    /// number of unyielded functions all of whose predecessors were yielded and dropped
    pub releasable_unyielded: usize,
}

#[cfg(feature = "interruptible")]
pub type IntrTx = tokio::sync::mpsc::Sender<interruptible::InterruptSignal>;
#[cfg(not(feature = "interruptible"))]
pub type IntrTx = ();

#[derive(Default)]
pub struct TaskCell {
    pub woken: Cell<usize>,
    pub gen: Cell<u64>,
    pub strict: Cell<bool>,
    pub wakes_total: Cell<u64>,
    pub wakes_stale: Cell<u64>,
}

#[derive(Clone, Copy, Debug, PartialEq, Eq)]
pub enum SeamKind {
    UserClosure,
    GatePoll,
    WakerClone,
}

/// Decides every scheduling choice.  Two implementations: PRNG-driven and
/// list-driven (replay).
pub trait Scheduler {
    /// `enabled[k] = (run, actions, view)`; returns (run, action) or None when
    /// nothing is enabled.
    fn next(&mut self, enabled: &[RunView]) -> Option<(usize, Action)>;
    /// inside a poll of `run`, at seam number `ord`
    fn mid(&mut self, run: usize, ord: u32, kind: SeamKind, enabled: &[Action]) -> Option<Action>;
}

#[derive(Clone, Debug)]
pub struct RunView {
    pub run: usize,
    pub woken: bool,
    pub never_polled: bool,
    pub actions: Vec<Action>,
    /// Release/DropRef candidate with the earliest virtual finish time
    pub vt_next: Option<Action>,
    /// Release/DropRef candidates in call/yield order
    pub in_call_order: Vec<Action>,
}

pub struct World {
    pub epoch: u64,
    pub events: RefCell<Vec<Ev>>,
    pub runs: RefCell<Vec<RunState>>,
    pub cells: [TaskCell; MAX_RUNS],
    pub polling: Cell<Option<usize>>,
    pub in_seam: Cell<bool>,
    pub seam_ord: Cell<u32>,
    pub seams_total: Cell<u64>,
    pub mids_done: Cell<u64>,
    pub scheduler: RefCell<Option<Box<dyn Scheduler>>>,
    pub schedule: RefCell<Vec<Step>>,
    pub mid_buf: RefCell<Vec<(u32, Action)>>,
    /// counters of fault kinds that actually fired
    pub fired: RefCell<std::collections::BTreeMap<&'static str, u64>>,
}

thread_local! {
    static CUR: RefCell<Option<Rc<World>>> = const { RefCell::new(None) };
}

pub fn set_current(w: Option<Rc<World>>) {
    CUR.with(|c| *c.borrow_mut() = w);
}

fn current() -> Option<Rc<World>> {
    CUR.with(|c| c.try_borrow().ok().and_then(|b| b.clone()))
}

impl World {
    pub fn new() -> Rc<World> {
        thread_local! {
            static EPOCH: Cell<u64> = const { Cell::new(0) };
        }
        let epoch = EPOCH.with(|e| {
            e.set(e.get() + 1);
            e.get()
        });
        Rc::new(World {
            epoch,
            events: RefCell::new(Vec::with_capacity(256)),
            runs: RefCell::new(Vec::new()),
            cells: Default::default(),
            polling: Cell::new(None),
            in_seam: Cell::new(false),
            seam_ord: Cell::new(0),
            seams_total: Cell::new(0),
            mids_done: Cell::new(0),
            scheduler: RefCell::new(None),
            schedule: RefCell::new(Vec::new()),
            mid_buf: RefCell::new(Vec::new()),
            fired: RefCell::new(Default::default()),
        })
    }

    #[inline]
    pub fn push(&self, ev: Ev) {
        self.events.borrow_mut().push(ev);
    }

    pub fn fire(&self, kind: &'static str) {
        *self.fired.borrow_mut().entry(kind).or_insert(0) += 1;
    }

    pub fn seq(&self) -> u64 {
        self.events.borrow().len() as u64
    }

    /// The user closure was invoked for function `id` of `run`.
    pub fn call<O: GateOut>(self: &Rc<Self>, run: usize, id: usize) -> Gate<O> {
        {
            let mut runs = self.runs.borrow_mut();
            let rs = &mut runs[run];
            rs.call_counter += 1;
            let vnow = rs.vnow;
            let cc = rs.call_counter;
            let g = &mut rs.gates[id];
            // a second call of the same id is recorded (C03) but the slot is reused
            g.called = true;
            g.first_polled = false;
            g.released = false;
            g.ended = false;
            g.dropped = false;
            g.yields_left = g.spec.yields;
            g.finish = vnow + if g.spec.immediate { 0 } else { g.spec.dur as u64 };
            g.call_seq = cc;
            self.push(Ev::Call { run, id });
        }
        self.seam(SeamKind::UserClosure);
        Gate {
            world: self.clone(),
            run,
            id,
            _o: PhantomData,
        }
    }

    /// Actions another thread could perform at this instant on `run`.
    pub fn mid_actions(&self, run: usize, kind: SeamKind) -> Vec<Action> {
        let runs = self.runs.borrow();
        let rs = &runs[run];
        let mut v = Vec::new();
        for (id, g) in rs.gates.iter().enumerate() {
            if g.called && !g.ended && !g.released && !g.dropped && !g.spec.immediate {
                v.push(Action::Release(id));
            }
        }
        if rs.signals_left > 0 && rs.intr_tx.is_some() && rs.family_counts_calls_exactly {
            v.push(Action::Interrupt);
        }
        // a FnRef drop takes no lock the library can hold while it clones a waker
        let _ = kind;
        for (id, _) in rs.held.iter() {
            v.push(Action::DropRef(*id));
        }
        v
    }

    pub fn seam(self: &Rc<Self>, kind: SeamKind) {
        let Some(run) = self.polling.get() else {
            return;
        };
        if self.in_seam.get() {
            return;
        }
        let ord = self.seam_ord.get();
        self.seam_ord.set(ord + 1);
        self.seams_total.set(self.seams_total.get() + 1);
        let enabled = self.mid_actions(run, kind);
        if enabled.is_empty() {
            return;
        }
        let choice = {
            let Ok(mut s) = self.scheduler.try_borrow_mut() else {
                return;
            };
            match s.as_mut() {
                Some(s) => s.mid(run, ord, kind, &enabled),
                None => None,
            }
        };
        if let Some(a) = choice {
            if !enabled.contains(&a) {
                return;
            }
            self.in_seam.set(true);
            self.perform_external(run, a);
            self.in_seam.set(false);
            self.mid_buf.borrow_mut().push((ord, a));
            self.mids_done.set(self.mids_done.get() + 1);
            self.fire(match (kind, a) {
                (SeamKind::WakerClone, Action::DropRef(_)) => "mid_poll_ref_drop_in_waker_registration",
                (SeamKind::WakerClone, _) => "mid_poll_event_in_waker_registration",
                (_, Action::Release(_)) => "mid_poll_release",
                (_, Action::Interrupt) => "mid_poll_interrupt",
                _ => "mid_poll_other",
            });
        }
    }

    /// Release / Interrupt / DropSender / DropRef / ForgetRef – the actions
    /// that do not need the root future.
    pub fn perform_external(self: &Rc<Self>, run: usize, a: Action) {
        match a {
            Action::Release(id) => {
                let (w1, w2, twice) = {
                    let mut runs = self.runs.borrow_mut();
                    let rs = &mut runs[run];
                    rs.polls_since_external = 0;
                    let g = &mut rs.gates[id];
                    g.released = true;
                    let fin = g.finish;
                    let w2 = if g.spec.stale_wake {
                        g.prev_waker.take()
                    } else {
                        None
                    };
                    let r = (g.waker.take(), w2, g.spec.wake_twice);
                    if fin > rs.vnow {
                        rs.vnow = fin;
                    }
                    r
                };
                self.push(Ev::Release { run, id });
                if let Some(w) = w2 {
                    self.fire("stale_waker_woken");
                    w.wake();
                }
                if let Some(w) = w1 {
                    if twice {
                        self.fire("wake_twice");
                        w.wake_by_ref();
                    }
                    w.wake();
                }
            }
            Action::Interrupt => {
                #[cfg(feature = "interruptible")]
                {
                    let tx = {
                        let mut runs = self.runs.borrow_mut();
                        let rs = &mut runs[run];
                        rs.signals_left = rs.signals_left.saturating_sub(1);
                        rs.polls_since_external = 0;
                        rs.intr_tx.clone()
                    };
                    let delivered = match tx {
                        Some(tx) => tx.try_send(interruptible::InterruptSignal).is_ok(),
                        None => false,
                    };
                    if delivered {
                        self.runs.borrow_mut()[run].intr_delivered = true;
                    }
                    let exact = {
                        let runs = self.runs.borrow();
                        runs[run].family_counts_calls_exactly || (runs[run].handouts_started && self.polling.get().is_none())
                    };
                    if !exact {
                        self.fire("interrupt_while_hand_outs_may_be_unstarted");
                    } else if !self.runs.borrow()[run].family_counts_calls_exactly && !self.runs.borrow()[run].settled {
                        self.fire("interrupt_exact_with_only_budget_deferred_wakeups_outstanding");
                    }
                    self.push(Ev::Interrupt { run, delivered, exact });
                }
                #[cfg(not(feature = "interruptible"))]
                {
                    let _ = run;
                }
            }
            Action::DropSender => {
                let tx = {
                    let mut runs = self.runs.borrow_mut();
                    let rs = &mut runs[run];
                    rs.sender_dropped = true;
                    rs.polls_since_external = 0;
                    rs.intr_tx.take()
                };
                drop(tx);
                self.push(Ev::SenderDrop { run });
            }
            Action::DropRef(id) => {
                let r = {
                    let mut runs = self.runs.borrow_mut();
                    let rs = &mut runs[run];
                    rs.polls_since_external = 0;
                    let pos = rs.held.iter().position(|(i, _)| *i == id);
                    if let Some(fpos) = rs.held_finish.iter().position(|(i, _)| *i == id) {
                        let (_, fin) = rs.held_finish.remove(fpos);
                        if fin > rs.vnow {
                            rs.vnow = fin;
                        }
                    }
                    if pos.is_some() && id < rs.ref_dropped.len() && !rs.ref_dropped[id] {
                        rs.ref_dropped[id] = true;
                        for k in 0..rs.succs_dir.get(id).map_or(0, |v| v.len()) {
                            let s = rs.succs_dir[id][k];
                            if rs.undropped_preds[s] > 0 {
                                rs.undropped_preds[s] -= 1;
                                if rs.undropped_preds[s] == 0 && !rs.yielded[s] {
                                    rs.releasable_unyielded += 1;
                                }
                            }
                        }
                    }
                    pos.map(|p| rs.held.remove(p))
                };
                if let Some((id, fnref)) = r {
                    // the event is stamped before the drop so that wake-ups caused by
                    // the drop follow it in the trace
                    self.push(Ev::RefDrop { run, id });
                    let by_unwinding = {
                        let runs = self.runs.borrow();
                        runs[run].spec.unwind_drop_mask & (1 << (id % 8)) != 0
                    };
                    if self.polling.get().is_some() {
                        // inside a poll: a panic unwinds through the library into the
                        // driver's catch_unwind
                        drop(fnref);
                    } else if by_unwinding {
                        // user code panics while it holds the FnRef; the panic is caught at
                        // a task boundary.  (resume_unwind: no panic hook, real unwinding.)
                        self.fire("ref_dropped_by_unwinding");
                        let r = std::panic::catch_unwind(std::panic::AssertUnwindSafe(move || {
                            let _held = fnref;
                            std::panic::resume_unwind(Box::new(UserPanic));
                        }));
                        if let Err(p) = r {
                            if !p.is::<UserPanic>() {
                                self.push(Ev::Panic { run, msg: "in FnRef::drop during unwinding".to_string() });
                            }
                        }
                    } else if let Err(p) = std::panic::catch_unwind(std::panic::AssertUnwindSafe(move || drop(fnref))) {
                        let msg = if let Some(s) = p.downcast_ref::<&str>() {
                            s.to_string()
                        } else if let Some(s) = p.downcast_ref::<String>() {
                            s.clone()
                        } else {
                            "<non-string panic>".to_string()
                        };
                        self.push(Ev::Panic { run, msg: format!("in FnRef::drop: {msg}") });
                    }
                }
            }
            Action::ForgetRef(id) => {
                let r = {
                    let mut runs = self.runs.borrow_mut();
                    let rs = &mut runs[run];
                    rs.polls_since_external = 0;
                    rs.held_finish.retain(|(i, _)| *i != id);
                    let pos = rs.held.iter().position(|(i, _)| *i == id);
                    pos.map(|p| rs.held.remove(p))
                };
                if let Some((id, fnref)) = r {
                    self.push(Ev::RefForget { run, id });
                    self.fire("ref_forgotten");
                    std::mem::forget(fnref);
                }
            }
            _ => unreachable!("not an external action: {a:?}"),
        }
    }

    pub fn on_wake(&self, run: usize, gen: u64) {
        let c = &self.cells[run];
        c.wakes_total.set(c.wakes_total.get() + 1);
        let counted = !c.strict.get() || gen == c.gen.get();
        if counted {
            c.woken.set(c.woken.get() + 1);
        } else {
            c.wakes_stale.set(c.wakes_stale.get() + 1);
        }
        if let Ok(mut ev) = self.events.try_borrow_mut() {
            ev.push(Ev::Wake { run, counted });
        }
    }

    pub fn make_waker(&self, run: usize) -> Waker {
        let data = Arc::new(WakerData {
            run,
            gen: self.cells[run].gen.get(),
            epoch: self.epoch,
        });
        unsafe { Waker::from_raw(RawWaker::new(Arc::into_raw(data) as *const (), &VTABLE)) }
    }
}

/// payload of the simulated user panic
struct UserPanic;

// ---------------------------------------------------------------------------
// Raw waker: lets the simulator see clone / wake / drop.

struct WakerData {
    run: usize,
    gen: u64,
    /// the simulation this waker belongs to: a waker that an earlier simulation left
    /// registered somewhere (e.g. in a channel kept alive by an FnRef) is another task
    epoch: u64,
}

static VTABLE: RawWakerVTable = RawWakerVTable::new(wk_clone, wk_wake, wk_wake_by_ref, wk_drop);

unsafe fn wk_clone(p: *const ()) -> RawWaker {
    Arc::increment_strong_count(p as *const WakerData);
    if let Some(w) = current() {
        w.seam(SeamKind::WakerClone);
    }
    RawWaker::new(p, &VTABLE)
}

unsafe fn wk_wake(p: *const ()) {
    let a = Arc::from_raw(p as *const WakerData);
    if let Some(w) = current() {
        if a.epoch == w.epoch {
            w.on_wake(a.run, a.gen);
        } else {
            w.fire("wake_of_a_task_of_an_earlier_run_ignored");
        }
    }
}

unsafe fn wk_wake_by_ref(p: *const ()) {
    let d = &*(p as *const WakerData);
    if let Some(w) = current() {
        if d.epoch == w.epoch {
            w.on_wake(d.run, d.gen);
        } else {
            w.fire("wake_of_a_task_of_an_earlier_run_ignored");
        }
    }
}

unsafe fn wk_drop(p: *const ()) {
    drop(Arc::from_raw(p as *const WakerData));
}
