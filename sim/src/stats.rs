//! Measured coverage: every number in the evidence comes from here.

use std::collections::{BTreeMap, HashSet};

use serde_json::{json, Value};

use crate::{
    gen::{Prop, FEATURE_I},
    oracle::{self, conflict, digest, RunTrace},
    rng::Fnv,
    runner::{result_hash, Executed},
    spec::{CaseSpec, Family, Mode, RunSpec, Strategy},
    world::{Ev, OutKind},
};

const SET_CAP: usize = 1 << 20;

pub struct Stats {
    pub prop: Prop,
    pub evaluations: u64,
    pub nontrivial: u64,
    pub distinct: HashSet<u64>,
    pub distinct_capped: bool,
    pub graphs: HashSet<u64>,
    pub traces: HashSet<u64>,
    pub counters: BTreeMap<String, u64>,
    pub steps: u64,
    pub events: u64,
    pub polls: u64,
    pub seams: u64,
    pub mids: u64,
    pub virtual_time: u64,
    pub max_n: usize,
    pub step_caps: u64,
    pub stale_wakes: u64,
    /// max over runs of (polls after the last external event) / (64 (n+8)) in per mille
    pub cap_use_permille: u64,
    pub max_steps_permille: u64,
}

fn graph_hash(c: &CaseSpec) -> u64 {
    let mut h = Fnv::new();
    h.usize(c.graph.fns.len());
    h.u8(c.graph.provenance);
    for f in &c.graph.fns {
        h.u64(f.reads as u64);
        h.u64(f.writes as u64);
        h.u8(f.style);
        h.u8(f.own);
    }
    for e in &c.graph.calls {
        h.usize(e.from);
        h.usize(e.to);
        h.u8(e.kind as u8);
        h.u64(e.batch as u64);
    }
    h.0
}

fn run_hash(h: &mut Fnv, r: &RunSpec) {
    h.usize(r.api.index());
    h.u8(r.reverse as u8);
    h.usize(r.limit.map_or(usize::MAX, |x| x));
    h.usize(r.strategy.tag());
    h.u8(r.include as u8);
    h.u8(r.strict_waker as u8);
    for g in &r.gates {
        h.u8(g.yields);
        h.u8(g.immediate as u8 | (g.fail as u8) << 1 | (g.wake_twice as u8) << 2 | (g.stale_wake as u8) << 3);
    }
}

impl Stats {
    pub fn new(prop: Prop) -> Self {
        Stats {
            prop,
            evaluations: 0,
            nontrivial: 0,
            distinct: HashSet::new(),
            distinct_capped: false,
            graphs: HashSet::new(),
            traces: HashSet::new(),
            counters: BTreeMap::new(),
            steps: 0,
            events: 0,
            polls: 0,
            seams: 0,
            mids: 0,
            virtual_time: 0,
            max_n: 0,
            step_caps: 0,
            stale_wakes: 0,
            cap_use_permille: 0,
            max_steps_permille: 0,
        }
    }

    fn bump(&mut self, k: &str) {
        *self.counters.entry(k.to_string()).or_insert(0) += 1;
    }
    fn add(&mut self, k: &str, v: u64) {
        *self.counters.entry(k.to_string()).or_insert(0) += v;
    }

    pub fn record(&mut self, ex: &Executed) {
        self.evaluations += 1;
        let case = &ex.case;
        let n = case.graph.fns.len();
        self.max_n = self.max_n.max(n);
        let gh = graph_hash(case);
        if self.graphs.len() < SET_CAP {
            self.graphs.insert(gh);
        }
        let th = result_hash(&ex.result);
        if self.traces.len() < SET_CAP {
            self.traces.insert(th);
        }
        for d in &ex.result.drives {
            self.steps += d.steps as u64;
            self.events += d.events.len() as u64;
            self.seams += d.seams;
            self.mids += d.mids;
            self.stale_wakes += d.wakes_stale;
            let caps = crate::exec::Caps::for_n(d.n);
            self.cap_use_permille = self
                .cap_use_permille
                .max((d.max_polls_after_external as u64 * 1000) / caps.polls_after_external as u64);
            self.max_steps_permille = self.max_steps_permille.max((d.steps as u64 * 1000) / caps.steps as u64);
            self.virtual_time += d.makespan.iter().sum::<u64>();
            if d.vt_ok.iter().any(|&x| x) {
                self.add("probe.runs_under_virtual_time_discipline", 1);
            }
            for (k, v) in &d.fired {
                self.add(&format!("fault.{k}"), *v);
            }
            // external events with no poll in between (late poll / multi-drop / burst)
            let mut cur = 0usize;
            let mut best = 0usize;
            for st in &d.schedule {
                match st.action {
                    crate::spec::Action::Release(_) | crate::spec::Action::DropRef(_) => {
                        cur += 1;
                        best = best.max(cur);
                    }
                    crate::spec::Action::Poll => cur = 0,
                    _ => {}
                }
            }
            if best >= 2 {
                self.add("fault.late_poll_2_or_more_events_between_polls", 1);
            }
            if best >= 8 {
                self.add("fault.late_poll_8_or_more_events_between_polls", 1);
            }
            if best > 64 {
                self.add("fault.late_poll_more_than_64_events_between_polls", 1);
            }
            for e in &d.events {
                match e {
                    Ev::Poll { .. } => self.polls += 1,
                    Ev::StepCap => self.step_caps += 1,
                    _ => {}
                }
            }
        }
        self.bump(&format!("graph_family.{}", case.graph.family));
        self.bump(match n {
            0 => "n.0",
            1 => "n.1",
            2..=7 => "n.2-7",
            8..=24 => "n.8-24",
            25..=300 => "n.25-300",
            _ => "n.over-1000",
        });

        let mut nontrivial = false;
        // per-run probes
        let worlds: Vec<(usize, &RunSpec, &[Ev])> = match case.mode {
            Mode::Single => vec![(0, &case.runs[0], &ex.result.drives[0].events[..])],
            Mode::Concurrent => case
                .runs
                .iter()
                .enumerate()
                .map(|(r, rs)| (r, rs, &ex.result.drives[0].events[..]))
                .collect(),
            Mode::History => case
                .runs
                .iter()
                .enumerate()
                .map(|(r, rs)| (0, rs, &ex.result.drives[r].events[..]))
                .collect(),
        };
        let mut run_traces: Vec<RunTrace> = Vec::new();
        for (r, rs, events) in &worlds {
            let t = digest(events, *r, n);
            self.bump(&format!("api.{}", rs.api.name()));
            if rs.strict_waker {
                self.bump("waker.strict");
            } else {
                self.bump("waker.lenient");
            }
            if rs.reverse {
                self.bump("order.reverse");
            }
            for g in &rs.gates {
                if g.immediate {
                    self.add("fault.immediate_ready", 1);
                }
            }
            if !t.failed.is_empty() {
                self.add("fault.fail", t.failed.len() as u64);
            }
            if !t.interrupt_delivered.is_empty() {
                self.add("fault.interrupt_delivered", t.interrupt_delivered.len() as u64);
                if t.interrupt_delivered.len() >= 2 {
                    self.bump("fault.interrupt_twice");
                }
            }
            // exit path
            let exit = if t.panic.is_some() {
                "panic"
            } else if t.aborted.is_some() || t.stream_drop.is_some() {
                "aborted"
            } else if t.dead.is_some() || t.live_cap.is_some() || t.stalled.is_some() {
                "hung"
            } else if t.finish_seq().is_none() {
                "unfinished"
            } else if n == 0 {
                "empty"
            } else if !t.failed.is_empty() && t.interrupted(rs) {
                "failed+interrupted"
            } else if !t.failed.is_empty() {
                "failed"
            } else if t.interrupted(rs) && t.started_set().len() < n {
                "interrupted"
            } else {
                "finished"
            };
            self.bump(&format!("exit.{}|{}", rs.api.name(), exit));
            self.bump(&format!("exit_path.{exit}"));
            match self.prop {
                Prop::C01 => {
                    let st = t.started_set();
                    let mut pair = false;
                    let mut same_rank = false;
                    for (i, &a) in st.iter().enumerate() {
                        for &b in &st[i + 1..] {
                            if conflict(case, a, b) {
                                pair = true;
                                if ex.result.built.ranks.get(a) == ex.result.built.ranks.get(b) {
                                    same_rank = true;
                                }
                            }
                        }
                    }
                    if pair {
                        nontrivial = true;
                        self.bump("probe.conflicting_pair_both_ran");
                    }
                    if same_rank {
                        self.bump("probe.conflicting_pair_same_rank");
                    }
                    if t.max_inflight >= 2 {
                        self.bump("probe.two_or_more_in_flight");
                    }
                }
                Prop::C02 => {
                    let anc = oracle::user_ancestors(&ex.result.built, rs.reverse);
                    if t.starts.iter().any(|(_, id)| anc[*id].iter().any(|&x| x)) {
                        nontrivial = true;
                        self.bump("probe.dependent_function_started");
                    }
                }
                Prop::C03 => {
                    if t.finish_seq().is_some() && !t.interrupted(rs) && t.failed.is_empty() && n >= 1 {
                        nontrivial = true;
                        self.bump("probe.clean_run_finished");
                        if n > 24 {
                            self.bump("probe.clean_wide_run_finished");
                        }
                    }
                }
                Prop::C04 => {
                    if !rs.api.is_stream() && (t.ret.is_some() && (!t.polls_pending_after.is_empty() || n == 0)) {
                        nontrivial = true;
                    }
                }
                Prop::C05 => {
                    if rs.api.is_stream() && !t.polls_pending_after.is_empty() && !t.starts.is_empty() {
                        nontrivial = true;
                        self.bump("probe.pending_poll_with_refs_outstanding");
                    }
                    if t.stream_end.is_some() {
                        self.bump("probe.stream_ended");
                    }
                }
                Prop::C06 => {
                    if oracle::c06_applicable(rs, &t) && !t.idle.is_empty() && t.max_inflight >= 1 {
                        nontrivial = true;
                        self.add("probe.idle_points_evaluated", t.idle.len() as u64);
                        if t.max_inflight >= 2 {
                            self.bump("probe.idle_with_two_in_flight");
                        }
                    }
                }
                Prop::C07 => {
                    if n <= 5 && n >= 1 {
                        let subset: u64 = rs.gates.iter().enumerate().map(|(i, g)| (g.fail as u64) << i).sum();
                        if subset != 0 {
                            self.bump("probe.small_graph_failing_subset_case");
                        }
                    }
                    if !t.failed.is_empty() {
                        nontrivial = true;
                        if t.failed.len() >= 2 {
                            self.bump("probe.two_or_more_failed");
                        }
                    }
                }
                Prop::C08 => {
                    if let Some(&s) = t.interrupt_delivered.first() {
                        if rs.strategy.interrupts() {
                            let before = t.starts.iter().filter(|(q, _)| *q < s).count();
                            if before < n {
                                nontrivial = true;
                            }
                            let pos = if t.first_poll.map_or(true, |p| s < p) {
                                "before_first_poll"
                            } else if t.starts.iter().all(|(q, _)| *q < s) && before == n {
                                "after_last_hand_out"
                            } else {
                                "mid_run"
                            };
                            let st = match rs.strategy {
                                Strategy::FinishCurrent => "FinishCurrent".to_string(),
                                Strategy::PollNextN(k) => format!("PollNextN{k}"),
                                _ => "other".to_string(),
                            };
                            let fam = match rs.api.family() {
                                Family::Stream => "stream",
                                Family::Fold | Family::TryFold => "fold",
                                _ => "for_each",
                            };
                            self.bump(&format!("position.{st}|{pos}|{fam}|include={}", rs.include));
                        } else {
                            self.bump("probe.signal_with_ignore_strategy");
                        }
                    }
                }
                Prop::C09 => {
                    if let Some((_, out)) = &t.ret {
                        if out.state.is_some() {
                            nontrivial = true;
                            self.bump(&format!("probe.outcome_{:?}_{:?}", out.kind, out.state.unwrap()));
                        } else if out.kind == OutKind::Err {
                            self.bump("probe.try_fold_err");
                        }
                    }
                }
                Prop::C10 => {
                    let bound = match rs.api.family() {
                        Family::Fold | Family::TryFold => Some(1),
                        Family::Stream => None,
                        _ => rs.limit.filter(|&l| l >= 1),
                    };
                    if let Some(b) = bound {
                        if t.max_inflight == b && n > b {
                            nontrivial = true;
                            self.bump("probe.limit_reached_exactly");
                        }
                    }
                }
                Prop::C15 | Prop::C20 | Prop::C14 => {}
            }
            run_traces.push(t);
        }
        match self.prop {
            Prop::C15 => {
                let k = case.runs.len();
                let probe = &run_traces[k - 1];
                let prefix_nontrivial = run_traces[..k - 1].iter().any(|t| !t.starts.is_empty());
                if !probe.starts.is_empty() && prefix_nontrivial {
                    nontrivial = true;
                }
                for t in &run_traces[..k - 1] {
                    if t.aborted.is_some() || t.stream_drop.is_some() {
                        self.bump("probe.prefix_run_aborted");
                        if t.starts.iter().any(|(_, id)| t.end[*id].is_none()) {
                            self.bump("probe.prefix_aborted_with_functions_in_flight");
                        }
                    } else if !t.failed.is_empty() {
                        self.bump("probe.prefix_run_failed");
                    } else if t.interrupted(&case.runs[0]) {
                        self.bump("probe.prefix_run_interrupted");
                    } else {
                        self.bump("probe.prefix_run_completed");
                    }
                }
            }
            Prop::C20 => {
                // overlap: some run started while another had functions in flight
                let ev = &ex.result.drives[0].events;
                let mut inflight = vec![0i64; case.runs.len()];
                let mut overlap = false;
                for e in ev {
                    match e {
                        Ev::Call { run, .. } | Ev::Yield { run, .. } => {
                            inflight[*run] += 1;
                            if inflight.iter().enumerate().any(|(r, &c)| r != *run && c > 0) {
                                overlap = true;
                            }
                        }
                        Ev::End { run, .. } | Ev::RefDrop { run, .. } | Ev::GateDropped { run, .. } => inflight[*run] -= 1,
                        _ => {}
                    }
                }
                if overlap {
                    nontrivial = true;
                    self.bump("probe.runs_overlapped_in_flight");
                }
            }
            _ => {}
        }
        if nontrivial {
            self.nontrivial += 1;
            let mut h = Fnv::new();
            h.u8(FEATURE_I as u8);
            h.u64(gh);
            for r in &case.runs {
                run_hash(&mut h, r);
            }
            h.u64(th);
            if self.distinct.len() < SET_CAP {
                self.distinct.insert(h.0);
            } else {
                self.distinct_capped = true;
            }
        }
    }

    pub fn merge(&mut self, o: Stats) {
        self.evaluations += o.evaluations;
        self.nontrivial += o.nontrivial;
        self.distinct_capped |= o.distinct_capped;
        for h in o.distinct {
            self.distinct.insert(h);
        }
        for h in o.graphs {
            self.graphs.insert(h);
        }
        for h in o.traces {
            self.traces.insert(h);
        }
        for (k, v) in o.counters {
            *self.counters.entry(k).or_insert(0) += v;
        }
        self.steps += o.steps;
        self.events += o.events;
        self.polls += o.polls;
        self.seams += o.seams;
        self.mids += o.mids;
        self.virtual_time += o.virtual_time;
        self.max_n = self.max_n.max(o.max_n);
        self.step_caps += o.step_caps;
        self.stale_wakes += o.stale_wakes;
        self.cap_use_permille = self.cap_use_permille.max(o.cap_use_permille);
        self.max_steps_permille = self.max_steps_permille.max(o.max_steps_permille);
    }

    /// Probes whose expected count at a quick budget is in the thousands; zero
    /// means the generator or a seam is broken.
    pub fn required_probe_missing(&self, runs: u64) -> Option<String> {
        if runs < 20_000 || self.evaluations < 20_000 {
            return None;
        }
        let mut req: Vec<String> = Vec::new();
        match self.prop {
            Prop::C01 => {
                req.push("probe.conflicting_pair_both_ran".into());
                req.push("probe.conflicting_pair_same_rank".into());
                req.push("probe.two_or_more_in_flight".into());
            }
            Prop::C02 => req.push("probe.dependent_function_started".into()),
            Prop::C03 => {
                req.push("probe.clean_run_finished".into());
                if self.evaluations >= 100_000 {
                    req.push("probe.clean_wide_run_finished".into());
                    req.push("fault.late_poll_more_than_64_events_between_polls".into());
                }
            }
            Prop::C04 => {
                req.push("exit_path.finished".into());
                req.push("exit_path.empty".into());
                req.push("exit_path.failed".into());
                if FEATURE_I {
                    req.push("exit_path.interrupted".into());
                }
                // every feasible cell of the API x exit-path matrix
                if self.evaluations >= 100_000 {
                    for a in crate::spec::ALL_APIS.iter().filter(|a| !a.is_stream()) {
                        req.push(format!("exit.{}|finished", a.name()));
                        req.push(format!("exit.{}|empty", a.name()));
                        if a.can_fail() {
                            req.push(format!("exit.{}|failed", a.name()));
                        }
                        if FEATURE_I && a.interruptible() {
                            req.push(format!("exit.{}|interrupted", a.name()));
                        }
                    }
                }
            }
            Prop::C05 => {
                req.push("probe.pending_poll_with_refs_outstanding".into());
                if self.evaluations >= 100_000 {
                    req.push("fault.late_poll_more_than_64_events_between_polls".into());
                    req.push("fault.mid_poll_ref_drop_in_waker_registration".into());
                }
            }
            Prop::C06 => {
                req.push("probe.idle_points_evaluated".into());
                req.push("probe.idle_with_two_in_flight".into());
                req.push("probe.runs_under_virtual_time_discipline".into());
            }
            Prop::C10 => req.push("probe.limit_reached_exactly".into()),
            Prop::C15 => {
                req.push("probe.prefix_run_aborted".into());
                req.push("probe.prefix_aborted_with_functions_in_flight".into());
                req.push("probe.prefix_run_failed".into());
                req.push("probe.prefix_run_completed".into());
            }
            Prop::C20 => req.push("probe.runs_overlapped_in_flight".into()),
            Prop::C07 => req.push("probe.two_or_more_failed".into()),
            _ => {}
        }
        if self.nontrivial == 0 && !(self.prop == Prop::C08 && !FEATURE_I) {
            return Some("nontrivial cases".into());
        }
        req.into_iter().find(|k| self.counters.get(k).copied().unwrap_or(0) == 0)
    }

    pub fn to_json(
        &self,
        build: &str,
        seed: u64,
        wall: f64,
        samples: Vec<Value>,
        violation: Value,
        known_hits: &BTreeMap<String, u64>,
    ) -> Value {
        json!({
            "build": build,
            "property": self.prop.name(),
            "seed": seed,
            "wall_s": wall,
            "evaluations": self.evaluations,
            "nontrivial": self.nontrivial,
            "distinct_nontrivial": self.distinct.len(),
            "distinct_capped": self.distinct_capped,
            "distinct_graphs": self.graphs.len(),
            "distinct_traces": self.traces.len(),
            "simulator_steps": self.steps,
            "trace_events": self.events,
            "root_polls": self.polls,
            "seam_crossings": self.seams,
            "mid_poll_events": self.mids,
            "stale_wakes_not_counted": self.stale_wakes,
            "simulated_time_units": self.virtual_time,
            "max_functions": self.max_n,
            "step_caps": self.step_caps,
            "liveness_cap_max_use_permille": self.cap_use_permille,
            "step_cap_max_use_permille": self.max_steps_permille,
            "counters": self.counters,
            "samples": samples,
            "violation": violation,
            "known_findings_hit": known_hits,
        })
    }
}
