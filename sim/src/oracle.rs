//! Property oracles.  Every check is an implication taken from the property
//! statement and evaluated over the recorded trace (total order = index in the
//! event vector) plus the small reference model below.  Nothing here dictates
//! which enabled function the library picks, nor any timing.

use crate::{
    exec::{BEdge, Built},
    gen::Prop,
    spec::{Api, CaseSpec, EdgeKind, Family, RunSpec, Strategy},
    world::{Ev, OutKind, OutState, OutcomeRec},
};

#[derive(Clone, Debug, PartialEq, Eq)]
pub struct Violation {
    pub prop: Prop,
    pub class: &'static str,
    pub run: usize,
    pub msg: String,
}

/// Own conflict predicate: the two functions share a data type and at least one
/// of them declares it exclusively.  (Deliberately not the library's
/// three-clause expression.)
pub fn conflict(case: &CaseSpec, a: usize, b: usize) -> bool {
    let (fa, fb) = (&case.graph.fns[a], &case.graph.fns[b]);
    for k in 0..crate::spec::N_TYPES {
        let bit = 1u16 << k;
        let a_uses = (fa.reads | fa.writes) & bit != 0;
        let b_uses = (fb.reads | fb.writes) & bit != 0;
        let one_writes = (fa.writes | fb.writes) & bit != 0;
        if a_uses && b_uses && one_writes {
            return true;
        }
    }
    false
}

/// Per-run digest of a trace.
#[derive(Debug, Default)]
pub struct RunTrace {
    pub run: usize,
    pub n: usize,
    /// (seq, id) of every hand-out seen by the caller: closure call or stream yield
    pub starts: Vec<(usize, usize)>,
    /// first end per id: (seq, ok)
    pub end: Vec<Option<(usize, bool)>>,
    pub start_count: Vec<u32>,
    pub first_poll: Option<usize>,
    pub idle: Vec<usize>,
    pub interrupt_delivered: Vec<usize>,
    /// the point from which starts count as "after the signal": the signal's own
    /// position, or the end of the poll inside which it landed
    pub interrupt_effective: Vec<usize>,
    /// the first delivered signal came at a point where closure calls count hand-outs
    pub first_interrupt_exact: bool,
    pub ret: Option<(usize, OutcomeRec)>,
    pub stream_end: Option<usize>,
    pub stream_drop: Option<usize>,
    pub aborted: Option<usize>,
    pub panic: Option<(usize, String)>,
    pub dead: Option<(usize, &'static str)>,
    pub stalled: Option<(usize, usize)>,
    pub live_cap: Option<usize>,
    pub step_cap: bool,
    pub gate_dropped: Vec<(usize, usize)>,
    pub forgotten: Vec<usize>,
    pub intr_item: Option<usize>,
    pub polls_pending_after: Vec<usize>,
    pub failed: Vec<(usize, usize)>,
    pub max_inflight: usize,
}

pub fn digest(events: &[Ev], run: usize, n: usize) -> RunTrace {
    let mut t = RunTrace {
        run,
        n,
        end: vec![None; n],
        start_count: vec![0; n],
        ..Default::default()
    };
    let mut inflight = 0usize;
    let mut in_poll = false;
    let mut pending_intr: Vec<usize> = Vec::new();
    for (seq, e) in events.iter().enumerate() {
        match e {
            Ev::PollBegin { run: r } if *r == run => {
                if t.first_poll.is_none() {
                    t.first_poll = Some(seq);
                }
                in_poll = true;
            }
            Ev::Poll { run: r, ready } if *r == run => {
                in_poll = false;
                for x in pending_intr.drain(..) {
                    let _: usize = x;
                    t.interrupt_effective.push(seq);
                }
                if !*ready {
                    t.polls_pending_after.push(seq);
                }
            }
            Ev::Idle { run: r } if *r == run => t.idle.push(seq),
            Ev::Call { run: r, id } | Ev::Yield { run: r, id, .. } if *r == run => {
                t.starts.push((seq, *id));
                if *id < n {
                    t.start_count[*id] += 1;
                }
                inflight += 1;
                t.max_inflight = t.max_inflight.max(inflight);
                if let Ev::Yield { interrupted: true, .. } = e {
                    t.intr_item = Some(seq);
                }
            }
            Ev::YieldIntrNone { run: r } if *r == run => t.intr_item = Some(seq),
            Ev::End { run: r, id, ok } if *r == run => {
                if *id < n && t.end[*id].is_none() {
                    t.end[*id] = Some((seq, *ok));
                }
                if !*ok {
                    t.failed.push((seq, *id));
                }
                inflight = inflight.saturating_sub(1);
            }
            Ev::RefDrop { run: r, id } if *r == run => {
                if *id < n && t.end[*id].is_none() {
                    t.end[*id] = Some((seq, true));
                }
                inflight = inflight.saturating_sub(1);
            }
            Ev::RefForget { run: r, id } if *r == run => t.forgotten.push(*id),
            Ev::GateDropped { run: r, id } if *r == run => {
                t.gate_dropped.push((seq, *id));
                inflight = inflight.saturating_sub(1);
            }
            Ev::Interrupt { run: r, delivered: true, exact } if *r == run => {
                if t.interrupt_delivered.is_empty() {
                    t.first_interrupt_exact = *exact;
                }
                t.interrupt_delivered.push(seq);
                if in_poll {
                    // a signal landing inside a poll is ordered after that poll's decisions
                    pending_intr.push(seq);
                } else {
                    t.interrupt_effective.push(seq);
                }
            }
            Ev::Return { run: r, outcome } if *r == run => t.ret = Some((seq, outcome.clone())),
            Ev::StreamEnd { run: r } if *r == run => t.stream_end = Some(seq),
            Ev::StreamDrop { run: r } if *r == run => t.stream_drop = Some(seq),
            Ev::Abort { run: r } if *r == run => t.aborted = Some(seq),
            Ev::Panic { run: r, msg } if *r == run => {
                if t.panic.is_none() {
                    t.panic = Some((seq, msg.clone()))
                }
            }
            Ev::Dead { run: r, why } if *r == run => t.dead = Some((seq, why)),
            Ev::Stalled { run: r, id } if *r == run => t.stalled = Some((seq, *id)),
            Ev::LiveCap { run: r } if *r == run => t.live_cap = Some(seq),
            Ev::StepCap => t.step_cap = true,
            _ => {}
        }
    }
    t
}

impl RunTrace {
    pub fn started(&self, id: usize) -> bool {
        self.start_count[id] > 0
    }
    pub fn started_set(&self) -> Vec<usize> {
        (0..self.n).filter(|&i| self.started(i)).collect()
    }
    pub fn ended_before(&self, id: usize, seq: usize) -> bool {
        matches!(self.end[id], Some((s, _)) if s < seq)
    }
    /// sequence number at which the call returned / the stream ended
    pub fn finish_seq(&self) -> Option<usize> {
        self.ret.as_ref().map(|r| r.0).or(self.stream_end)
    }
    pub fn interrupted(&self, rs: &RunSpec) -> bool {
        rs.strategy.interrupts() && !self.interrupt_delivered.is_empty()
    }
}

// ---------------------------------------------------------------------------
// Reference model pieces

/// Transitive ancestors through accepted user edges, in the run's direction.
pub fn user_ancestors(built: &Built, reverse: bool) -> Vec<Vec<bool>> {
    let n = built.n;
    let mut anc = vec![vec![false; n]; n];
    // direct
    let mut direct: Vec<Vec<usize>> = vec![Vec::new(); n];
    for &(a, b, _) in &built.accepted {
        if reverse {
            direct[a].push(b); // b depends on a  => in reverse a waits for b
        } else {
            direct[b].push(a);
        }
    }
    // closure by DFS from each node
    for i in 0..n {
        let mut stack: Vec<usize> = direct[i].clone();
        while let Some(p) = stack.pop() {
            if !anc[i][p] {
                anc[i][p] = true;
                stack.extend(direct[p].iter().copied());
            }
        }
    }
    anc
}

/// Descendants in the built graph in the run's direction.
pub fn built_descendants(built: &Built, reverse: bool, from: usize) -> Vec<bool> {
    let n = built.n;
    let succ = built.succs_dir(reverse);
    let mut seen = vec![false; n];
    let mut stack: Vec<usize> = succ[from].clone();
    while let Some(p) = stack.pop() {
        if !seen[p] {
            seen[p] = true;
            stack.extend(succ[p].iter().copied());
        }
    }
    seen
}

pub fn longest_path(built: &Built, reverse: bool, dur: &dyn Fn(usize) -> u64) -> u64 {
    let n = built.n;
    let preds = built.preds_dir(reverse);
    let succ = built.succs_dir(reverse);
    let mut indeg: Vec<usize> = (0..n).map(|i| preds[i].len()).collect();
    let mut fin = vec![0u64; n];
    let mut q: Vec<usize> = (0..n).filter(|&i| indeg[i] == 0).collect();
    let mut best = 0;
    while let Some(i) = q.pop() {
        let start = preds[i].iter().map(|&p| fin[p]).max().unwrap_or(0);
        fin[i] = start + dur(i);
        best = best.max(fin[i]);
        for &s in &succ[i] {
            indeg[s] -= 1;
            if indeg[s] == 0 {
                q.push(s);
            }
        }
    }
    best
}

// ---------------------------------------------------------------------------
// The oracles

fn v(prop: Prop, class: &'static str, run: usize, msg: String) -> Violation {
    Violation { prop, class, run, msg }
}

pub fn check_c01(case: &CaseSpec, _built: &Built, events: &[Ev], run: usize) -> Option<Violation> {
    let n = case.graph.fns.len();
    let mut inflight: Vec<usize> = Vec::new();
    for (seq, e) in events.iter().enumerate() {
        match e {
            Ev::Call { run: r, id } | Ev::Yield { run: r, id, .. } if *r == run => {
                for &a in &inflight {
                    if a != *id && a < n && *id < n && conflict(case, a, *id) {
                        return Some(v(
                            Prop::C01,
                            "conflicting-overlap",
                            run,
                            format!("function {id} handed out at seq {seq} while conflicting function {a} is still in flight"),
                        ));
                    }
                }
                inflight.push(*id);
            }
            Ev::End { run: r, id, .. } | Ev::RefDrop { run: r, id } | Ev::GateDropped { run: r, id } if *r == run => {
                if let Some(p) = inflight.iter().position(|x| x == id) {
                    inflight.remove(p);
                }
            }
            _ => {}
        }
    }
    None
}

pub fn check_c02(case: &CaseSpec, built: &Built, t: &RunTrace, rs: &RunSpec) -> Option<Violation> {
    let _ = case;
    let anc = user_ancestors(built, rs.reverse);
    for &(seq, id) in &t.starts {
        for a in 0..t.n {
            if anc[id][a] && !t.ended_before(a, seq) {
                return Some(v(
                    Prop::C02,
                    "started-before-dependency",
                    t.run,
                    format!(
                        "function {id} handed out at seq {seq} before its {} {a} finished",
                        if rs.reverse { "dependent" } else { "dependency" }
                    ),
                ));
            }
        }
    }
    None
}

pub fn check_c03(_case: &CaseSpec, _built: &Built, t: &RunTrace, rs: &RunSpec) -> Option<Violation> {
    for id in 0..t.n {
        if t.start_count[id] > 1 {
            return Some(v(
                Prop::C03,
                "handed-out-twice",
                t.run,
                format!("function {id} handed out {} times", t.start_count[id]),
            ));
        }
    }
    if let Some((_, msg)) = &t.panic {
        if msg.contains("borrow fn mutably") {
            return Some(v(
                Prop::C03,
                "handed-out-twice",
                t.run,
                format!("second hand-out of a function in a mut variant: panic `{msg}`"),
            ));
        }
    }
    let clean = !t.interrupted(rs) && t.failed.is_empty() && t.forgotten.is_empty();
    if clean && t.aborted.is_none() && t.stream_drop.is_none() && t.panic.is_none() {
        // a clean run that can never finish leaves functions that are never handed out
        let stuck = t
            .dead
            .map(|(s, w)| (s, w.to_string()))
            .or(t.live_cap.map(|s| (s, "no return within the poll budget".to_string())))
            .or(t.stalled.map(|(s, f)| (s, format!("stream pending with no wake-up, function {f} releasable"))));
        if let Some((seq, why)) = stuck {
            if let Some(missing) = (0..t.n).find(|&i| !t.started(i)) {
                return Some(v(
                    Prop::C03,
                    "clean-run-stuck-function-never-handed-out",
                    t.run,
                    format!("uninterrupted, unfailed run is stuck at seq {seq} ({why}); function {missing} is never handed out"),
                ));
            }
        }
    }
    if clean && t.finish_seq().is_some() {
        if let Some(missing) = (0..t.n).find(|&i| !t.started(i)) {
            return Some(v(
                Prop::C03,
                "clean-run-missing-function",
                t.run,
                format!("uninterrupted, unfailed call finished but function {missing} was never handed out"),
            ));
        }
    }
    None
}

pub fn check_c04(_case: &CaseSpec, _built: &Built, t: &RunTrace, rs: &RunSpec) -> Option<Violation> {
    if rs.api.is_stream() {
        return None;
    }
    if let Some((seq, msg)) = &t.panic {
        return Some(v(Prop::C04, "panic", t.run, format!("panic at seq {seq}: {msg}")));
    }
    if let Some((seq, why)) = t.dead {
        return Some(v(Prop::C04, "dead-state", t.run, format!("at seq {seq}: {why}")));
    }
    if let Some(seq) = t.live_cap {
        return Some(v(
            Prop::C04,
            "no-return-in-budget",
            t.run,
            format!("no return within the poll budget after the last external event (seq {seq})"),
        ));
    }
    if let Some((rseq, _)) = &t.ret {
        for &(_, id) in &t.starts {
            if !t.ended_before(id, *rseq) {
                return Some(v(
                    Prop::C04,
                    "returned-with-unfinished-future",
                    t.run,
                    format!("call returned at seq {rseq} but the user future of function {id} had not completed"),
                ));
            }
        }
        if let Some(&(seq, id)) = t.gate_dropped.iter().find(|(s, _)| s < rseq) {
            return Some(v(
                Prop::C04,
                "user-future-dropped",
                t.run,
                format!("user future of function {id} dropped unresolved at seq {seq} before the call returned"),
            ));
        }
    }
    None
}

pub fn check_c05(_case: &CaseSpec, _built: &Built, t: &RunTrace, rs: &RunSpec, events: &[Ev]) -> Option<Violation> {
    if !rs.api.is_stream() {
        return None;
    }
    if let Some((seq, msg)) = &t.panic {
        return Some(v(Prop::C05, "panic", t.run, format!("panic at seq {seq}: {msg}")));
    }
    if let Some((seq, id)) = t.stalled {
        return Some(v(
            Prop::C05,
            "stalled",
            t.run,
            format!("at seq {seq} the stream is pending with no wake-up although function {id} has all predecessors yielded and dropped"),
        ));
    }
    // None exactly after all functions were yielded
    let mut yielded = 0usize;
    let mut intr_item = false;
    for (seq, e) in events.iter().enumerate() {
        match e {
            Ev::Yield { run, interrupted, .. } if *run == t.run => {
                yielded += 1;
                if *interrupted {
                    intr_item = true;
                }
            }
            Ev::YieldIntrNone { run } if *run == t.run => intr_item = true,
            Ev::StreamEnd { run } if *run == t.run => {
                if !intr_item && yielded < t.n {
                    return Some(v(
                        Prop::C05,
                        "early-none",
                        t.run,
                        format!("stream ended at seq {seq} after {yielded} of {} functions", t.n),
                    ));
                }
            }
            // a Pending poll with a wake-up already signalled (e.g. a budget-induced yield)
            // is allowed by the statement; Pending with none outstanding is not
            Ev::Idle { run } if *run == t.run => {
                if yielded >= t.n || intr_item {
                    return Some(v(
                        Prop::C05,
                        "late-none",
                        t.run,
                        format!(
                            "poll before seq {seq} returned Pending with no wake-up signalled although {}",
                            if intr_item { "the Interrupted item was already yielded" } else { "all functions were already yielded" }
                        ),
                    ));
                }
            }
            _ => {}
        }
    }
    None
}

/// C06-B: static clause, evaluated on the input of the run.
pub fn check_c06_static(case: &CaseSpec, built: &Built) -> Option<Violation> {
    for &(a, b, k) in &built.edges {
        let user = built.accepted.iter().find(|e| e.0 == a && e.1 == b);
        match user {
            Some(&(_, _, uk)) => {
                let want = match uk {
                    EdgeKind::Logic => BEdge::Logic,
                    EdgeKind::Contains => BEdge::Contains,
                };
                if k != want && !(built.kind_unsure.iter().any(|e| e.0 == a && e.1 == b) && k != BEdge::Data) {
                    return Some(v(
                        Prop::C06,
                        "user-edge-kind-changed",
                        0,
                        format!("edge {a}->{b} given as {uk:?} is {k:?} in the built graph"),
                    ));
                }
            }
            None if built.maybe.iter().any(|e| e.0 == a && e.1 == b) && k != BEdge::Data => {
                // recorded from a batch call that was rejected further on: not relied upon
            }
            None => {
                if k != BEdge::Data || !conflict(case, a, b) {
                    return Some(v(
                        Prop::C06,
                        "foreign-edge-without-conflict",
                        0,
                        format!("built graph has edge {a}->{b} ({k:?}) that the user did not add and whose functions do not conflict"),
                    ));
                }
            }
        }
    }
    None
}

pub fn c06_applicable(rs: &RunSpec, t: &RunTrace) -> bool {
    matches!(rs.api.family(), Family::ForEach | Family::TryForEach | Family::Stream)
        && matches!(rs.limit, None | Some(0))
        && t.interrupt_delivered.is_empty()
        && t.failed.is_empty()
        && t.forgotten.is_empty()
        && !matches!(rs.api, Api::StreamInterruptible | Api::StreamWithInterruptible)
}

pub fn check_c06(case: &CaseSpec, built: &Built, t: &RunTrace, rs: &RunSpec, events: &[Ev]) -> Option<Violation> {
    if let Some(x) = check_c06_static(case, built) {
        return Some(x);
    }
    if !c06_applicable(rs, t) {
        return None;
    }
    let preds = built.preds_dir(rs.reverse);
    // walk the trace, keep started / ended, evaluate at idle points
    let mut started = vec![false; t.n];
    let mut ended = vec![false; t.n];
    let stop = t
        .stream_drop
        .or(t.aborted)
        .unwrap_or(usize::MAX);
    for (seq, e) in events.iter().enumerate() {
        if seq >= stop {
            break;
        }
        match e {
            Ev::Call { run, id } | Ev::Yield { run, id, .. } if *run == t.run => started[*id] = true,
            Ev::End { run, id, .. } | Ev::RefDrop { run, id } if *run == t.run => ended[*id] = true,
            Ev::Idle { run } if *run == t.run => {
                for f in 0..t.n {
                    if !started[f] && preds[f].iter().all(|&p| ended[p]) {
                        return Some(v(
                            Prop::C06,
                            "waits-for-unrelated",
                            t.run,
                            format!("idle at seq {seq}: function {f} has all built-graph predecessors finished but was not started"),
                        ));
                    }
                }
            }
            _ => {}
        }
    }
    None
}

/// C06-C: virtual-time makespan equals the critical path.
pub fn check_c06_makespan(built: &Built, t: &RunTrace, rs: &RunSpec, makespan: u64) -> Option<Violation> {
    if t.finish_seq().is_none() || !c06_applicable(rs, t) {
        return None;
    }
    let want = longest_path(built, rs.reverse, &|i| {
        let g = &rs.gates[i];
        if g.immediate && !rs.api.is_stream() {
            0
        } else {
            g.dur as u64
        }
    });
    if makespan != want {
        return Some(v(
            Prop::C06,
            "makespan-not-critical-path",
            t.run,
            format!("virtual makespan {makespan} differs from the longest duration-weighted path {want}"),
        ));
    }
    None
}

pub fn check_c07(_case: &CaseSpec, built: &Built, t: &RunTrace, rs: &RunSpec) -> Option<Violation> {
    if !rs.api.can_fail() {
        return None;
    }
    let fam = rs.api.family();
    // no dependent of a failed function is ever started
    for &(_, f) in &t.failed {
        let desc = built_descendants(built, rs.reverse, f);
        for &(seq, id) in &t.starts {
            if desc[id] {
                return Some(v(
                    Prop::C07,
                    "dependent-of-failed-started",
                    t.run,
                    format!("function {id} (seq {seq}) is ordered after failed function {f} but was started"),
                ));
            }
        }
    }
    if !t.failed.is_empty() {
        // "the call returns Err/Break ..." – a failed call that never returns reports nothing
        if let Some((seq, why)) = t.dead {
            return Some(v(
                Prop::C07,
                "failed-call-never-returns",
                t.run,
                format!("functions {:?} failed but the call is stuck at seq {seq}: {why}", t.failed.iter().map(|x| x.1).collect::<Vec<_>>()),
            ));
        }
        if let Some(seq) = t.live_cap {
            return Some(v(
                Prop::C07,
                "failed-call-never-returns",
                t.run,
                format!("functions {:?} failed but the call did not return within the poll budget (seq {seq})", t.failed.iter().map(|x| x.1).collect::<Vec<_>>()),
            ));
        }
    }
    let Some((rseq, out)) = &t.ret else { return None };
    for &(_, id) in &t.starts {
        if !t.ended_before(id, *rseq) {
            return Some(v(
                Prop::C07,
                "started-not-completed",
                t.run,
                format!("function {id} was started but had not completed when the call returned"),
            ));
        }
    }
    let mut failed: Vec<usize> = t.failed.iter().map(|x| x.1).collect();
    if fam == Family::TryForEach {
        failed.sort();
        let mut errs = out.errors.clone();
        errs.sort();
        if errs != failed {
            return Some(v(
                Prop::C07,
                "errors-not-exact",
                t.run,
                format!("failed functions {failed:?} but reported errors {errs:?}"),
            ));
        }
        let want_err = !failed.is_empty();
        let is_err = matches!(out.kind, OutKind::Err) || (matches!(out.kind, OutKind::Break) && !out.errors.is_empty());
        if want_err != is_err {
            return Some(v(
                Prop::C07,
                "wrong-result-arm",
                t.run,
                format!("failed functions {failed:?} but result arm {:?}", out.kind),
            ));
        }
    } else {
        // try_fold: first error, nothing invoked after it
        match t.failed.first() {
            Some(&(fseq, fid)) => {
                if out.kind != OutKind::Err || out.errors != vec![fid] {
                    return Some(v(
                        Prop::C07,
                        "try-fold-wrong-error",
                        t.run,
                        format!("first failure was function {fid} but the call returned {:?} {:?}", out.kind, out.errors),
                    ));
                }
                if let Some(&(seq, id)) = t.starts.iter().find(|(s, _)| *s > fseq) {
                    return Some(v(
                        Prop::C07,
                        "try-fold-invoked-after-error",
                        t.run,
                        format!("function {id} invoked at seq {seq} after the failure of {fid} at seq {fseq}"),
                    ));
                }
            }
            None => {
                if out.kind != OutKind::Ok {
                    return Some(v(
                        Prop::C07,
                        "try-fold-wrong-error",
                        t.run,
                        format!("no function failed but the call returned {:?} {:?}", out.kind, out.errors),
                    ));
                }
            }
        }
    }
    None
}

pub fn check_c08(_case: &CaseSpec, _built: &Built, t: &RunTrace, rs: &RunSpec) -> Option<Violation> {
    if !rs.strategy.has_channel() {
        return None;
    }
    let finished = t.finish_seq().is_some();
    match rs.strategy {
        Strategy::Ignore | Strategy::NonInterruptible => {
            if finished && t.failed.is_empty() && t.forgotten.is_empty() {
                if let Some(m) = (0..t.n).find(|&i| !t.started(i)) {
                    return Some(v(
                        Prop::C08,
                        "ignored-signal-changed-run",
                        t.run,
                        format!("strategy {:?}: function {m} never ran", rs.strategy),
                    ));
                }
            }
            return None;
        }
        _ => {}
    }
    let (Some(&s_sent), Some(&s)) = (t.interrupt_delivered.first(), t.interrupt_effective.iter().min()) else {
        return None;
    };
    let after: Vec<(usize, usize)> = t.starts.iter().copied().filter(|(q, _)| *q > s).collect();
    let pre = t.first_poll.map_or(true, |p| s_sent < p);
    let stream = rs.api.is_stream();
    let bound: usize = match rs.strategy {
        Strategy::FinishCurrent | Strategy::PollNextN(0) => {
            if pre {
                0
            } else if stream || rs.include {
                1
            } else {
                0
            }
        }
        Strategy::PollNextN(n) => n as usize,
        _ => unreachable!(),
    };
    if t.first_interrupt_exact && after.len() > bound {
        return Some(v(
            Prop::C08,
            "too-many-after-signal",
            t.run,
            format!(
                "signal at seq {s}{}: {} functions started afterwards ({:?}), bound {bound} for {:?} include={}",
                if pre { " (before the first poll)" } else { "" },
                after.len(),
                after.iter().map(|x| x.1).collect::<Vec<_>>(),
                rs.strategy,
                rs.include
            ),
        ));
    }
    if stream {
        // ends right after the Interrupted item
        return None;
    }
    if let Some((rseq, out)) = &t.ret {
        for &(_, id) in &t.starts {
            if !t.ended_before(id, *rseq) {
                return Some(v(
                    Prop::C08,
                    "started-not-completed",
                    t.run,
                    format!("function {id} was started but not completed when the interrupted call returned"),
                ));
            }
            if out.state.is_some() && !out.processed.contains(&id) {
                return Some(v(
                    Prop::C08,
                    "started-not-reported",
                    t.run,
                    format!("function {id} was started but is not in fn_ids_processed"),
                ));
            }
        }
    }
    if let Some((seq, why)) = t.dead {
        return Some(v(Prop::C08, "no-return", t.run, format!("interrupted call never returns (seq {seq}): {why}")));
    }
    if let Some(seq) = t.live_cap {
        return Some(v(Prop::C08, "no-return", t.run, format!("interrupted call did not return in the poll budget (seq {seq})")));
    }
    None
}

pub fn check_c09(case: &CaseSpec, _built: &Built, t: &RunTrace, rs: &RunSpec) -> Option<Violation> {
    if rs.api.is_stream() {
        return None;
    }
    let Some((_, out)) = &t.ret else { return None };
    let Some(state) = out.state else { return None };
    let n = case.graph.fns.len();
    let called: Vec<usize> = t.starts.iter().map(|x| x.1).collect();
    if out.processed != called {
        return Some(v(
            Prop::C09,
            "processed-mismatch",
            t.run,
            format!("fn_ids_processed {:?} but functions were started in order {called:?}", out.processed),
        ));
    }
    let want_np: Vec<usize> = (0..n).filter(|i| !called.contains(i)).collect();
    if out.not_processed != want_np {
        return Some(v(
            Prop::C09,
            "not-processed-mismatch",
            t.run,
            format!("fn_ids_not_processed {:?}, expected {want_np:?}", out.not_processed),
        ));
    }
    let all = want_np.is_empty();
    let want_state = if all { OutState::Finished } else { OutState::Interrupted };
    if state != want_state {
        return Some(v(
            Prop::C09,
            "state-mismatch",
            t.run,
            format!("state {state:?} but {} of {n} functions processed", called.len()),
        ));
    }
    let any_failed = !t.failed.is_empty();
    match out.kind {
        OutKind::Continue | OutKind::Break => {
            let want_continue = all && !any_failed;
            if want_continue != (out.kind == OutKind::Continue) {
                return Some(v(
                    Prop::C09,
                    "control-flow-mismatch",
                    t.run,
                    format!("returned {:?} with state {state:?} and {} failures", out.kind, t.failed.len()),
                ));
            }
        }
        OutKind::Ok | OutKind::Err => {
            if any_failed != (out.kind == OutKind::Err) {
                return Some(v(
                    Prop::C09,
                    "result-arm-mismatch",
                    t.run,
                    format!("returned {:?} with {} failures", out.kind, t.failed.len()),
                ));
            }
        }
        OutKind::Plain => {}
    }
    if let Some(val) = &out.value {
        if *val != called {
            return Some(v(
                Prop::C09,
                "value-mismatch",
                t.run,
                format!("folded value {val:?} but functions ran in order {called:?}"),
            ));
        }
    }
    None
}

pub fn check_c10(_case: &CaseSpec, _built: &Built, t: &RunTrace, rs: &RunSpec) -> Option<Violation> {
    if rs.api.is_stream() {
        return None;
    }
    let bound = match rs.api.family() {
        Family::Fold | Family::TryFold => Some(1),
        _ => match rs.limit {
            Some(l) if l >= 1 => Some(l),
            _ => None,
        },
    };
    if let Some(b) = bound {
        if t.max_inflight > b {
            return Some(v(
                Prop::C10,
                "limit-exceeded",
                t.run,
                format!("{} user futures in flight, limit {b}", t.max_inflight),
            ));
        }
    }
    let clean = !t.interrupted(rs) && t.failed.is_empty();
    // a call given a limit >= 1 that can never return: the limit (or a structure sized
    // by it) blocks completion, whatever else happened in the run
    if bound.is_some() && t.aborted.is_none() && matches!(rs.api.family(), Family::ForEach | Family::TryForEach) {
        if let Some((seq, msg)) = &t.panic {
            return Some(v(Prop::C10, "limit-blocks-completion", t.run, format!("limit {:?}: panic at seq {seq}: {msg}", rs.limit)));
        }
        if let Some((seq, why)) = t.dead {
            return Some(v(Prop::C10, "limit-blocks-completion", t.run, format!("limit {:?}, seq {seq}: {why}", rs.limit)));
        }
        if let Some(seq) = t.live_cap {
            return Some(v(Prop::C10, "limit-blocks-completion", t.run, format!("limit {:?}: no return in budget (seq {seq})", rs.limit)));
        }
    }
    if clean && t.aborted.is_none() {
        if let Some((seq, why)) = t.dead {
            return Some(v(Prop::C10, "limit-blocks-completion", t.run, format!("seq {seq}: {why}")));
        }
        if let Some(seq) = t.live_cap {
            return Some(v(Prop::C10, "limit-blocks-completion", t.run, format!("no return in budget (seq {seq})")));
        }
        if t.ret.is_some() {
            if let Some(m) = (0..t.n).find(|&i| !t.started(i)) {
                return Some(v(
                    Prop::C10,
                    "limit-blocks-completion",
                    t.run,
                    format!("call returned but function {m} never ran (limit {:?})", rs.limit),
                ));
            }
        }
    }
    None
}

/// Runs the oracle of `prop` over one run of a drive.
pub fn check_run(
    prop: Prop,
    case: &CaseSpec,
    built: &Built,
    events: &[Ev],
    run: usize,
    rs: &RunSpec,
) -> Option<Violation> {
    let t = digest(events, run, built.n);
    match prop {
        Prop::C01 => check_c01(case, built, events, run),
        Prop::C02 => check_c02(case, built, &t, rs),
        Prop::C03 => check_c03(case, built, &t, rs),
        Prop::C04 => check_c04(case, built, &t, rs),
        Prop::C05 => check_c05(case, built, &t, rs, events),
        Prop::C06 => check_c06(case, built, &t, rs, events),
        Prop::C07 => check_c07(case, built, &t, rs),
        Prop::C08 => check_c08(case, built, &t, rs),
        Prop::C09 => check_c09(case, built, &t, rs),
        Prop::C10 => check_c10(case, built, &t, rs),
        Prop::C14 | Prop::C15 | Prop::C20 => None,
    }
}

/// All single-run oracles (used by C20: every guarantee, per run).
pub fn check_all_single(case: &CaseSpec, built: &Built, events: &[Ev], run: usize, rs: &RunSpec) -> Option<Violation> {
    for p in [
        Prop::C01,
        Prop::C02,
        Prop::C03,
        Prop::C04,
        Prop::C05,
        Prop::C06,
        Prop::C07,
        Prop::C08,
        Prop::C09,
        Prop::C10,
    ] {
        if let Some(x) = check_run(p, case, built, events, run, rs) {
            return Some(x);
        }
    }
    None
}
