//! Fully expanded description of one simulated case: graph, runs, options,
//! fault plan – and the explicit schedule.  Everything here round-trips through
//! JSON so that a replay file re-executes without the PRNG.

use serde_json::{json, Value};

pub const N_TYPES: usize = 12;

#[derive(Clone, Debug, PartialEq, Eq)]
pub struct FnDecl {
    /// bit k set = declares shared access to data type k
    pub reads: u16,
    /// bit k set = declares exclusive access to data type k
    pub writes: u16,
    /// how the lists are returned by `DataAccessDyn` (all legal): bit 0 = heap-backed
    /// small-vector even when short, bit 1 = reverse order, bit 2 = first entry twice,
    /// bit 3 = every written type is also listed as read
    pub style: u8,
    /// number (0..=2) of additional data types private to this function (written by
    /// it, used by nobody else) - graphs with hundreds of distinct types
    pub own: u8,
}

#[derive(Clone, Copy, Debug, PartialEq, Eq)]
pub enum EdgeKind {
    Logic,
    Contains,
}

#[derive(Clone, Debug, PartialEq, Eq)]
pub struct EdgeCall {
    pub from: usize,
    pub to: usize,
    pub kind: EdgeKind,
    /// 0 = a single `add_*_edge` call; consecutive calls with the same non-zero value
    /// (and kind) are one `add_*_edges([..])` batch call of 2 or 3 edges
    pub batch: u32,
}

#[derive(Clone, Debug, PartialEq, Eq, Default)]
pub struct GraphSpec {
    pub fns: Vec<FnDecl>,
    /// `add_logic_edge` / `add_contains_edge` calls in call order; calls the
    /// builder rejects (they would close a cycle) are kept, the builder's answer
    /// decides.
    pub calls: Vec<EdgeCall>,
    /// informational: generator family
    pub family: String,
    /// how the graph value that is run came to be: 0 = straight from `build()`,
    /// 1 = `built.clone()`, 2 = `scratch.clone_from(&built)` where scratch was built from
    /// a variant of this spec (other edges and declarations, one function fewer),
    /// 3 = `FnGraph::new()` then `clone_from(&built)`, 4 = scratch built from the same
    /// spec with the declarations of the last two functions exchanged, then `clone_from`
    pub provenance: u8,
}

#[derive(Clone, Copy, Debug, PartialEq, Eq, PartialOrd, Ord, Hash)]
pub enum Api {
    Stream,
    StreamWith,
    StreamInterruptible,
    StreamWithInterruptible,
    FoldAsync,
    FoldAsyncWith,
    FoldAsyncMut,
    FoldAsyncMutWith,
    ForEach,
    ForEachWith,
    ForEachMut,
    ForEachMutWith,
    TryFold,
    TryFoldWith,
    TryFoldMut,
    TryFoldMutWith,
    TryForEach,
    TryForEachWith,
    TryForEachControl,
    TryForEachControlWith,
    TryForEachMut,
    TryForEachMutWith,
    TryForEachControlMut,
    TryForEachControlMutWith,
}

pub const ALL_APIS: [Api; 24] = [
    Api::Stream,
    Api::StreamWith,
    Api::StreamInterruptible,
    Api::StreamWithInterruptible,
    Api::FoldAsync,
    Api::FoldAsyncWith,
    Api::FoldAsyncMut,
    Api::FoldAsyncMutWith,
    Api::ForEach,
    Api::ForEachWith,
    Api::ForEachMut,
    Api::ForEachMutWith,
    Api::TryFold,
    Api::TryFoldWith,
    Api::TryFoldMut,
    Api::TryFoldMutWith,
    Api::TryForEach,
    Api::TryForEachWith,
    Api::TryForEachControl,
    Api::TryForEachControlWith,
    Api::TryForEachMut,
    Api::TryForEachMutWith,
    Api::TryForEachControlMut,
    Api::TryForEachControlMutWith,
];

#[derive(Clone, Copy, Debug, PartialEq, Eq)]
pub enum Family {
    Stream,
    Fold,
    TryFold,
    ForEach,
    TryForEach,
}

impl Api {
    pub fn name(self) -> &'static str {
        match self {
            Api::Stream => "stream",
            Api::StreamWith => "stream_with",
            Api::StreamInterruptible => "stream_interruptible",
            Api::StreamWithInterruptible => "stream_with_interruptible",
            Api::FoldAsync => "fold_async",
            Api::FoldAsyncWith => "fold_async_with",
            Api::FoldAsyncMut => "fold_async_mut",
            Api::FoldAsyncMutWith => "fold_async_mut_with",
            Api::ForEach => "for_each_concurrent",
            Api::ForEachWith => "for_each_concurrent_with",
            Api::ForEachMut => "for_each_concurrent_mut",
            Api::ForEachMutWith => "for_each_concurrent_mut_with",
            Api::TryFold => "try_fold_async",
            Api::TryFoldWith => "try_fold_async_with",
            Api::TryFoldMut => "try_fold_async_mut",
            Api::TryFoldMutWith => "try_fold_async_mut_with",
            Api::TryForEach => "try_for_each_concurrent",
            Api::TryForEachWith => "try_for_each_concurrent_with",
            Api::TryForEachControl => "try_for_each_concurrent_control",
            Api::TryForEachControlWith => "try_for_each_concurrent_control_with",
            Api::TryForEachMut => "try_for_each_concurrent_mut",
            Api::TryForEachMutWith => "try_for_each_concurrent_mut_with",
            Api::TryForEachControlMut => "try_for_each_concurrent_control_mut",
            Api::TryForEachControlMutWith => "try_for_each_concurrent_control_mut_with",
        }
    }

    pub fn from_name(s: &str) -> Option<Api> {
        ALL_APIS.iter().copied().find(|a| a.name() == s)
    }

    pub fn index(self) -> usize {
        ALL_APIS.iter().position(|&a| a == self).unwrap()
    }

    pub fn family(self) -> Family {
        use Api::*;
        match self {
            Stream | StreamWith | StreamInterruptible | StreamWithInterruptible => Family::Stream,
            FoldAsync | FoldAsyncWith | FoldAsyncMut | FoldAsyncMutWith => Family::Fold,
            TryFold | TryFoldWith | TryFoldMut | TryFoldMutWith => Family::TryFold,
            ForEach | ForEachWith | ForEachMut | ForEachMutWith => Family::ForEach,
            _ => Family::TryForEach,
        }
    }

    pub fn is_stream(self) -> bool {
        self.family() == Family::Stream
    }

    /// takes `StreamOpts`
    pub fn has_opts(self) -> bool {
        use Api::*;
        matches!(
            self,
            StreamWith
                | StreamWithInterruptible
                | FoldAsyncWith
                | FoldAsyncMutWith
                | ForEachWith
                | ForEachMutWith
                | TryFoldWith
                | TryFoldMutWith
                | TryForEachWith
                | TryForEachControlWith
                | TryForEachMutWith
                | TryForEachControlMutWith
        )
    }

    /// honours the interruptibility state of its options
    pub fn interruptible(self) -> bool {
        self.has_opts() && self != Api::StreamWith
    }

    pub fn is_mut(self) -> bool {
        use Api::*;
        matches!(
            self,
            FoldAsyncMut
                | FoldAsyncMutWith
                | ForEachMut
                | ForEachMutWith
                | TryFoldMut
                | TryFoldMutWith
                | TryForEachMut
                | TryForEachMutWith
                | TryForEachControlMut
                | TryForEachControlMutWith
        )
    }

    pub fn is_control(self) -> bool {
        use Api::*;
        matches!(
            self,
            TryForEachControl
                | TryForEachControlWith
                | TryForEachControlMut
                | TryForEachControlMutWith
        )
    }

    pub fn can_fail(self) -> bool {
        matches!(self.family(), Family::TryFold | Family::TryForEach)
    }

    pub fn has_limit(self) -> bool {
        matches!(self.family(), Family::ForEach | Family::TryForEach)
    }

    /// needs the `interruptible` cargo feature of fn_graph
    pub fn needs_feature(self) -> bool {
        matches!(self, Api::StreamInterruptible | Api::StreamWithInterruptible)
    }
}

#[derive(Clone, Copy, Debug, PartialEq, Eq)]
pub enum Strategy {
    /// options left at `NonInterruptible` (no channel)
    NonInterruptible,
    Ignore,
    FinishCurrent,
    PollNextN(u64),
}

impl Strategy {
    pub fn has_channel(self) -> bool {
        self != Strategy::NonInterruptible
    }
    pub fn interrupts(self) -> bool {
        matches!(self, Strategy::FinishCurrent | Strategy::PollNextN(_))
    }
}

#[derive(Clone, Debug, PartialEq, Eq, Default)]
pub struct GateSpec {
    /// self-wake + Pending this many times first
    pub yields: u8,
    /// resolves without waiting for a release
    pub immediate: bool,
    /// resolves to Err(id) / Break(id)
    pub fail: bool,
    /// on release wakes its waker twice
    pub wake_twice: bool,
    /// on release also wakes the waker of the poll before last
    pub stale_wake: bool,
    /// virtual duration (virtual-time policy)
    pub dur: u32,
}

#[derive(Clone, Debug, PartialEq, Eq)]
pub struct RunSpec {
    pub api: Api,
    pub reverse: bool,
    pub limit: Option<usize>,
    pub strategy: Strategy,
    pub include: bool,
    pub gates: Vec<GateSpec>,
    /// number of interrupt signals the schedule may send
    pub signals: u8,
    /// the schedule may drop the interrupt sender
    pub may_drop_sender: bool,
    /// fresh waker per poll, stale ones do not count
    pub strict_waker: bool,
    /// the schedule may abort (drop) the run
    pub may_abort: bool,
    /// stream consumer: may forget refs
    pub may_forget: bool,
    /// run inside tokio's cooperative budget
    pub coop: bool,
    /// histories: this run's options carry a `reborrow()` of an interruptibility state
    /// that the previous run used too (signal and counters persist across the runs)
    pub share_intr_state: bool,
    /// how many times `StreamOpts::rev()` is called when `reverse` (documented as
    /// idempotent): 1..=3
    pub rev_calls: u8,
    /// register (no-op) `fn_interrupt_activate` / `fn_interrupt_poll_item` hooks on the
    /// interruptibility state
    pub intr_hooks: bool,
    /// for_each family: the schedule may send the signal also while hand-outs may still
    /// be waiting for their first poll (then only the count bound of C08 is not
    /// evaluated, everything else is)
    pub signals_anytime: bool,
    /// histories: the consumer walks away from the stream still holding whatever
    /// FnRefs it has at that moment; up to `carried_slots` of the next run are filled
    /// with them
    pub leave_refs: bool,
    /// histories: number of slots for FnRefs of the *previous* run's stream that are
    /// dropped during this run (dummies when the previous run left none)
    pub carried_slots: u8,
    /// coop mode: units of the task budget (of 128) the caller has already used up
    /// when it polls the call, on every third poll
    pub coop_burn: u8,
    /// stream consumer: FnRef `id` is dropped by the unwinding of a (caught) panic in
    /// user code iff bit `id % 8` is set
    pub unwind_drop_mask: u8,
}

#[derive(Clone, Copy, Debug, PartialEq, Eq)]
pub enum Mode {
    /// one run
    Single,
    /// runs[0..k-1] one after the other on the same graph value, the last one is
    /// compared with itself on a fresh graph (C15)
    History,
    /// all runs simultaneously on one shared graph (C20)
    Concurrent,
}

#[derive(Clone, Debug, PartialEq, Eq)]
pub struct CaseSpec {
    pub graph: GraphSpec,
    pub runs: Vec<RunSpec>,
    pub mode: Mode,
}

// ---------------------------------------------------------------------------
// Schedule

#[derive(Clone, Copy, Debug, PartialEq, Eq)]
pub enum Action {
    /// poll the run's future / `poll_next` the stream
    Poll,
    /// the user's work for function id completes
    Release(usize),
    /// send an interrupt signal
    Interrupt,
    /// drop the interrupt sender (channel disconnects)
    DropSender,
    /// consumer drops a held FnRef
    DropRef(usize),
    /// consumer forgets a held FnRef (never finishes)
    ForgetRef(usize),
    /// consumer drops the stream (held refs stay)
    DropStream,
    /// drop the run's future half-way
    Abort,
    /// create the run's future / stream (concurrent mode)
    Start,
    /// drop an FnRef that the previous run's (dropped) stream had yielded
    DropCarried(usize),
}

#[derive(Clone, Debug, PartialEq, Eq)]
pub struct Step {
    pub run: usize,
    pub action: Action,
    /// actions performed inside this poll: (seam ordinal, action)
    pub mids: Vec<(u32, Action)>,
}

// ---------------------------------------------------------------------------
// JSON

fn action_to_json(a: &Action) -> Value {
    match a {
        Action::Poll => json!("poll"),
        Action::Release(i) => json!({"release": i}),
        Action::Interrupt => json!("interrupt"),
        Action::DropSender => json!("drop_sender"),
        Action::DropRef(i) => json!({"drop_ref": i}),
        Action::ForgetRef(i) => json!({"forget_ref": i}),
        Action::DropStream => json!("drop_stream"),
        Action::Abort => json!("abort"),
        Action::Start => json!("start"),
        Action::DropCarried(i) => json!({"drop_carried": i}),
    }
}

fn action_from_json(v: &Value) -> Option<Action> {
    if let Some(s) = v.as_str() {
        return Some(match s {
            "poll" => Action::Poll,
            "interrupt" => Action::Interrupt,
            "drop_sender" => Action::DropSender,
            "drop_stream" => Action::DropStream,
            "abort" => Action::Abort,
            "start" => Action::Start,
            _ => return None,
        });
    }
    let o = v.as_object()?;
    let (k, val) = o.iter().next()?;
    let i = val.as_u64()? as usize;
    Some(match k.as_str() {
        "release" => Action::Release(i),
        "drop_ref" => Action::DropRef(i),
        "forget_ref" => Action::ForgetRef(i),
        "drop_carried" => Action::DropCarried(i),
        _ => return None,
    })
}

pub fn schedule_to_json(s: &[Step]) -> Value {
    Value::Array(
        s.iter()
            .map(|st| {
                if st.mids.is_empty() {
                    json!({"run": st.run, "do": action_to_json(&st.action)})
                } else {
                    json!({
                        "run": st.run,
                        "do": action_to_json(&st.action),
                        "inside": st.mids.iter().map(|(o, a)| json!({"seam": o, "do": action_to_json(a)})).collect::<Vec<_>>(),
                    })
                }
            })
            .collect(),
    )
}

pub fn schedule_from_json(v: &Value) -> Option<Vec<Step>> {
    let mut out = Vec::new();
    for st in v.as_array()? {
        let run = st.get("run")?.as_u64()? as usize;
        let action = action_from_json(st.get("do")?)?;
        let mut mids = Vec::new();
        if let Some(ins) = st.get("inside") {
            for m in ins.as_array()? {
                mids.push((
                    m.get("seam")?.as_u64()? as u32,
                    action_from_json(m.get("do")?)?,
                ));
            }
        }
        out.push(Step { run, action, mids });
    }
    Some(out)
}

fn types_to_json(mask: u16) -> Value {
    Value::Array(
        (0..N_TYPES)
            .filter(|k| mask & (1 << k) != 0)
            .map(|k| json!(format!("T{k}")))
            .collect(),
    )
}

fn types_from_json(v: &Value) -> Option<u16> {
    let mut m = 0u16;
    for t in v.as_array()? {
        let s = t.as_str()?;
        let k: usize = s.strip_prefix('T')?.parse().ok()?;
        if k >= N_TYPES {
            return None;
        }
        m |= 1 << k;
    }
    Some(m)
}

impl GraphSpec {
    pub fn to_json(&self) -> Value {
        json!({
            "family": self.family,
            "provenance": self.provenance,
            "fns": self.fns.iter().enumerate().map(|(i, f)| json!({
                "id": i, "reads": types_to_json(f.reads), "writes": types_to_json(f.writes), "list_style": f.style, "private_types": f.own
            })).collect::<Vec<_>>(),
            "builder_calls": self.calls.iter().map(|c| json!({
                "call": match c.kind { EdgeKind::Logic => "add_logic_edge", EdgeKind::Contains => "add_contains_edge" },
                "from": c.from, "to": c.to, "batch": c.batch
            })).collect::<Vec<_>>(),
        })
    }

    pub fn from_json(v: &Value) -> Option<Self> {
        let mut g = GraphSpec::default();
        g.family = v.get("family").and_then(|x| x.as_str()).unwrap_or("").to_string();
        g.provenance = v.get("provenance").and_then(|x| x.as_u64()).unwrap_or(0) as u8;
        for f in v.get("fns")?.as_array()? {
            g.fns.push(FnDecl {
                reads: types_from_json(f.get("reads")?)?,
                writes: types_from_json(f.get("writes")?)?,
                style: f.get("list_style").and_then(|x| x.as_u64()).unwrap_or(0) as u8,
                own: f.get("private_types").and_then(|x| x.as_u64()).unwrap_or(0) as u8,
            });
        }
        for c in v.get("builder_calls")?.as_array()? {
            let kind = match c.get("call")?.as_str()? {
                "add_logic_edge" => EdgeKind::Logic,
                "add_contains_edge" => EdgeKind::Contains,
                _ => return None,
            };
            g.calls.push(EdgeCall {
                from: c.get("from")?.as_u64()? as usize,
                to: c.get("to")?.as_u64()? as usize,
                kind,
                batch: c.get("batch").and_then(|b| b.as_u64()).unwrap_or(0) as u32,
            });
        }
        Some(g)
    }
}

impl Strategy {
    pub fn to_json(self) -> Value {
        match self {
            Strategy::NonInterruptible => json!("NonInterruptible"),
            Strategy::Ignore => json!("IgnoreInterruptions"),
            Strategy::FinishCurrent => json!("FinishCurrent"),
            Strategy::PollNextN(n) => json!({"PollNextN": n}),
        }
    }
    pub fn from_json(v: &Value) -> Option<Self> {
        if let Some(s) = v.as_str() {
            return Some(match s {
                "NonInterruptible" => Strategy::NonInterruptible,
                "IgnoreInterruptions" => Strategy::Ignore,
                "FinishCurrent" => Strategy::FinishCurrent,
                _ => return None,
            });
        }
        Some(Strategy::PollNextN(v.get("PollNextN")?.as_u64()?))
    }
    pub fn tag(self) -> usize {
        match self {
            Strategy::NonInterruptible => 0,
            Strategy::Ignore => 1,
            Strategy::FinishCurrent => 2,
            Strategy::PollNextN(n) => 3 + (n.min(4) as usize),
        }
    }
}

impl GateSpec {
    pub fn to_json(&self, id: usize) -> Value {
        json!({
            "id": id, "yields": self.yields, "immediate": self.immediate, "fail": self.fail,
            "wake_twice": self.wake_twice, "stale_wake": self.stale_wake, "dur": self.dur
        })
    }
    pub fn from_json(v: &Value) -> Option<Self> {
        Some(GateSpec {
            yields: v.get("yields")?.as_u64()? as u8,
            immediate: v.get("immediate")?.as_bool()?,
            fail: v.get("fail")?.as_bool()?,
            wake_twice: v.get("wake_twice")?.as_bool()?,
            stale_wake: v.get("stale_wake")?.as_bool()?,
            dur: v.get("dur").and_then(|d| d.as_u64()).unwrap_or(1) as u32,
        })
    }
}

impl RunSpec {
    pub fn to_json(&self) -> Value {
        json!({
            "api": self.api.name(),
            "reverse": self.reverse,
            "limit": self.limit,
            "strategy": self.strategy.to_json(),
            "interrupted_next_item_include": self.include,
            "user_fns": self.gates.iter().enumerate().map(|(i, g)| g.to_json(i)).collect::<Vec<_>>(),
            "signals": self.signals,
            "may_drop_sender": self.may_drop_sender,
            "strict_waker": self.strict_waker,
            "may_abort": self.may_abort,
            "may_forget": self.may_forget,
            "coop": self.coop,
            "share_intr_state": self.share_intr_state,
            "rev_calls": self.rev_calls,
            "intr_hooks": self.intr_hooks,
            "signals_anytime": self.signals_anytime,
            "leave_refs": self.leave_refs,
            "carried_slots": self.carried_slots,
            "coop_burn": self.coop_burn,
            "unwind_drop_mask": self.unwind_drop_mask,
        })
    }
    pub fn from_json(v: &Value) -> Option<Self> {
        let mut gates = Vec::new();
        for g in v.get("user_fns")?.as_array()? {
            gates.push(GateSpec::from_json(g)?);
        }
        Some(RunSpec {
            api: Api::from_name(v.get("api")?.as_str()?)?,
            reverse: v.get("reverse")?.as_bool()?,
            limit: match v.get("limit")? {
                Value::Null => None,
                x => Some(x.as_u64()? as usize),
            },
            strategy: Strategy::from_json(v.get("strategy")?)?,
            include: v.get("interrupted_next_item_include")?.as_bool()?,
            gates,
            signals: v.get("signals")?.as_u64()? as u8,
            may_drop_sender: v.get("may_drop_sender")?.as_bool()?,
            strict_waker: v.get("strict_waker")?.as_bool()?,
            may_abort: v.get("may_abort")?.as_bool()?,
            may_forget: v.get("may_forget")?.as_bool()?,
            coop: v.get("coop").and_then(|c| c.as_bool()).unwrap_or(false),
            share_intr_state: v.get("share_intr_state").and_then(|c| c.as_bool()).unwrap_or(false),
            rev_calls: v.get("rev_calls").and_then(|c| c.as_u64()).unwrap_or(1) as u8,
            intr_hooks: v.get("intr_hooks").and_then(|c| c.as_bool()).unwrap_or(false),
            signals_anytime: v.get("signals_anytime").and_then(|c| c.as_bool()).unwrap_or(false),
            leave_refs: v.get("leave_refs").and_then(|c| c.as_bool()).unwrap_or(false),
            carried_slots: v.get("carried_slots").and_then(|c| c.as_u64()).unwrap_or(0) as u8,
            coop_burn: v.get("coop_burn").and_then(|c| c.as_u64()).unwrap_or(0) as u8,
            unwind_drop_mask: v.get("unwind_drop_mask").and_then(|c| c.as_u64()).unwrap_or(0) as u8,
        })
    }
}

impl CaseSpec {
    pub fn to_json(&self) -> Value {
        json!({
            "mode": match self.mode { Mode::Single => "single", Mode::History => "history", Mode::Concurrent => "concurrent" },
            "graph": self.graph.to_json(),
            "runs": self.runs.iter().map(|r| r.to_json()).collect::<Vec<_>>(),
        })
    }
    pub fn from_json(v: &Value) -> Option<Self> {
        let mode = match v.get("mode")?.as_str()? {
            "single" => Mode::Single,
            "history" => Mode::History,
            "concurrent" => Mode::Concurrent,
            _ => return None,
        };
        let mut runs = Vec::new();
        for r in v.get("runs")?.as_array()? {
            runs.push(RunSpec::from_json(r)?);
        }
        Some(CaseSpec {
            graph: GraphSpec::from_json(v.get("graph")?)?,
            runs,
            mode,
        })
    }
}
