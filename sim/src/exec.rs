//! Executes a `CaseSpec` under a `Scheduler`: builds the real graph with the real
//! builder, creates the real futures / streams, and drives them action by action.

use std::{
    future::Future,
    ops::ControlFlow,
    panic::{catch_unwind, AssertUnwindSafe},
    pin::Pin,
    rc::Rc,
    task::{Context, Poll},
};

use fn_graph::{Edge, FnGraph, FnGraphBuilder, FnRef, FnWrapper, FnWrapperMut, StreamOpts};
use futures::{future::LocalBoxFuture, stream::Stream, StreamExt};

use crate::{
    spec::{Action, Api, CaseSpec, EdgeKind, Family, GraphSpec, Mode, RunSpec, Step, Strategy},
    world::{
        set_current, Ev, Gate, GateSlot, OutKind, OutState, OutcomeRec, RunState, RunView,
        Scheduler, SimFn, World, MAX_RUNS,
    },
};

pub type G = FnGraph<SimFn>;

/// What the oracles need to know about the built graph – read from the pub
/// field `FnGraph::graph`, never from private state.
#[derive(Clone, Debug, Default)]
pub struct Built {
    pub n: usize,
    /// user edge calls the builder accepted, in call order (later kind wins)
    pub accepted: Vec<(usize, usize, EdgeKind)>,
    /// edges of rejected batch calls (may or may not be in the built graph)
    pub maybe: Vec<(usize, usize)>,
    /// accepted edges restated (possibly with another kind) inside a rejected batch
    pub kind_unsure: Vec<(usize, usize)>,
    pub rejected: usize,
    /// all edges of the built graph: (from, to, kind)
    pub edges: Vec<(usize, usize, BEdge)>,
    /// predecessors in the built graph (forward direction)
    pub preds: Vec<Vec<usize>>,
    pub succs: Vec<Vec<usize>>,
    pub ranks: Vec<usize>,
}

#[derive(Clone, Copy, Debug, PartialEq, Eq)]
pub enum BEdge {
    Logic,
    Contains,
    Data,
}

impl Built {
    pub fn preds_dir(&self, reverse: bool) -> &Vec<Vec<usize>> {
        if reverse {
            &self.succs
        } else {
            &self.preds
        }
    }
    pub fn succs_dir(&self, reverse: bool) -> &Vec<Vec<usize>> {
        if reverse {
            &self.preds
        } else {
            &self.succs
        }
    }
}

pub struct BuildPanic(pub String);

pub fn build_graph(gs: &GraphSpec) -> Result<(G, Built), BuildPanic> {
    let r = catch_unwind(AssertUnwindSafe(|| {
        let mut b = FnGraphBuilder::<SimFn>::new();
        let mut ids = Vec::with_capacity(gs.fns.len());
        for (i, f) in gs.fns.iter().enumerate() {
            let id = b.add_fn(SimFn {
                id: i,
                reads: f.reads,
                writes: f.writes,
                style: f.style,
                own: f.own,
                visits: 0,
            });
            ids.push(id);
        }
        let mut built = Built {
            n: gs.fns.len(),
            ..Default::default()
        };
        let accept = |built: &mut Built, c: &crate::spec::EdgeCall| {
            if let Some(e) = built.accepted.iter_mut().find(|e| e.0 == c.from && e.1 == c.to) {
                e.2 = c.kind;
            } else {
                built.accepted.push((c.from, c.to, c.kind));
            }
        };
        let mut i = 0;
        while i < gs.calls.len() {
            let c = &gs.calls[i];
            // a batch: consecutive calls with the same batch id and kind (2 or 3 of them)
            let mut j = i + 1;
            if c.batch != 0 {
                while j < gs.calls.len() && j - i < 3 && gs.calls[j].batch == c.batch && gs.calls[j].kind == c.kind {
                    j += 1;
                }
            }
            if j - i >= 2 {
                let group = &gs.calls[i..j];
                let pair = |k: usize| (ids[group[k].from], ids[group[k].to]);
                let ok = match (group.len(), c.kind) {
                    (2, EdgeKind::Logic) => b.add_logic_edges([pair(0), pair(1)]).is_ok(),
                    (2, EdgeKind::Contains) => b.add_contains_edges([pair(0), pair(1)]).is_ok(),
                    (_, EdgeKind::Logic) => b.add_logic_edges([pair(0), pair(1), pair(2)]).is_ok(),
                    (_, EdgeKind::Contains) => b.add_contains_edges([pair(0), pair(1), pair(2)]).is_ok(),
                };
                if ok {
                    for c in group {
                        accept(&mut built, c);
                    }
                } else {
                    // a rejected batch: which of its edges were recorded before the
                    // failing one is not something the caller relies on - they are
                    // neither required nor forbidden in the built graph.  Edges accepted
                    // by EARLIER calls stay required.
                    built.rejected += 1;
                    for c in group {
                        if !built.accepted.iter().any(|e| e.0 == c.from && e.1 == c.to) {
                            built.maybe.push((c.from, c.to));
                        } else {
                            // restated inside the rejected batch: its kind may have been updated
                            built.kind_unsure.push((c.from, c.to));
                        }
                    }
                }
                i = j;
                continue;
            }
            let res = match c.kind {
                EdgeKind::Logic => b.add_logic_edge(ids[c.from], ids[c.to]),
                EdgeKind::Contains => b.add_contains_edge(ids[c.from], ids[c.to]),
            };
            match res {
                Ok(_) => accept(&mut built, c),
                Err(_) => built.rejected += 1,
            }
            i += 1;
        }
        let g = b.build();
        // provenance: the value that is run may be a clone, or an older graph value
        // refreshed with `clone_from` (Clone is part of the public surface of FnGraph)
        let g = match gs.provenance {
            1 => g.clone(),
            2 => {
                let mut scratch = build_variant(gs);
                scratch.clone_from(&g);
                scratch
            }
            3 => {
                let mut scratch = G::new();
                scratch.clone_from(&g);
                scratch
            }
            4 => {
                // same functions, same user edges, but the declarations of the last two
                // functions exchanged: same shape (ranks, often also edge counts), other
                // data edges
                let mut twin = gs.clone();
                twin.provenance = 0;
                let n = twin.fns.len();
                if n >= 2 {
                    twin.fns.swap(n - 1, n - 2);
                }
                match build_plain(&twin) {
                    Some(mut scratch) => {
                        scratch.clone_from(&g);
                        scratch
                    }
                    None => g,
                }
            }
            _ => g,
        };
        built.preds = vec![Vec::new(); built.n];
        built.succs = vec![Vec::new(); built.n];
        for e in g.graph.raw_edges() {
            let (s, t) = (e.source().index(), e.target().index());
            let k = match e.weight {
                Edge::Logic => BEdge::Logic,
                Edge::Contains => BEdge::Contains,
                Edge::Data => BEdge::Data,
            };
            built.edges.push((s, t, k));
            if s < built.n && t < built.n {
                built.succs[s].push(t);
                built.preds[t].push(s);
            }
        }
        built.ranks = g.ranks().iter().map(|r| r.0).collect();
        (g, built)
    }));
    r.map_err(|p| BuildPanic(panic_msg(&p)))
}

#[cfg(feature = "interruptible")]
fn new_shared_intr(rs: &RunSpec) -> Option<SharedIntr> {
    use interruptible::InterruptibilityState;
    let (tx, rx) = tokio::sync::mpsc::channel::<interruptible::InterruptSignal>(16);
    let state = match rs.strategy {
        Strategy::Ignore => InterruptibilityState::new_ignore_interruptions(rx.into()),
        Strategy::FinishCurrent => InterruptibilityState::new_finish_current(rx.into()),
        Strategy::PollNextN(n) => InterruptibilityState::new_poll_next_n(rx.into(), n),
        Strategy::NonInterruptible => return None,
    };
    Some(SharedIntr { state, tx, signalled: false })
}
#[cfg(not(feature = "interruptible"))]
fn new_shared_intr(_rs: &RunSpec) -> Option<SharedIntr> {
    None
}

/// The graph of a spec, straight from the builder (single calls only).
fn build_plain(gs: &GraphSpec) -> Option<G> {
    let mut b = FnGraphBuilder::<SimFn>::new();
    let ids: Vec<_> = gs
        .fns
        .iter()
        .enumerate()
        .map(|(i, f)| {
            b.add_fn(SimFn {
                id: i,
                reads: f.reads,
                writes: f.writes,
                style: f.style,
                own: f.own,
                visits: 0,
            })
        })
        .collect();
    for c in &gs.calls {
        let _ = match c.kind {
            EdgeKind::Logic => b.add_logic_edge(ids[c.from], ids[c.to]),
            EdgeKind::Contains => b.add_contains_edge(ids[c.from], ids[c.to]),
        };
    }
    Some(b.build())
}

/// A different graph of (almost) the same size: reads and writes swapped, every other
/// edge call dropped and the rest reversed where that is acyclic, last function missing.
fn build_variant(gs: &GraphSpec) -> G {
    let mut b = FnGraphBuilder::<SimFn>::new();
    let n = gs.fns.len().saturating_sub(1);
    let ids: Vec<_> = gs
        .fns
        .iter()
        .take(n)
        .enumerate()
        .map(|(i, f)| {
            b.add_fn(SimFn {
                id: i,
                reads: f.writes,
                writes: f.reads,
                style: 0,
                own: 0,
                visits: 0,
            })
        })
        .collect();
    for (k, c) in gs.calls.iter().enumerate() {
        if k % 2 == 0 && c.from < n && c.to < n {
            let _ = b.add_logic_edge(ids[c.to], ids[c.from]);
        }
    }
    b.build()
}

pub fn panic_msg(p: &Box<dyn std::any::Any + Send>) -> String {
    if let Some(s) = p.downcast_ref::<&str>() {
        s.to_string()
    } else if let Some(s) = p.downcast_ref::<String>() {
        s.clone()
    } else {
        "<non-string panic>".to_string()
    }
}

// ---------------------------------------------------------------------------
// Roots

pub enum StreamItem<'g> {
    Fn(FnRef<'g, SimFn>),
    #[allow(dead_code)]
    IntrSome(FnRef<'g, SimFn>),
    #[allow(dead_code)]
    IntrNone,
}

pub enum Root<'g> {
    NotStarted,
    Fut(Pin<Box<dyn Future<Output = OutcomeRec> + 'g>>),
    Stream(Pin<Box<dyn Stream<Item = StreamItem<'g>> + 'g>>),
    Done,
}

pub enum Access<'g> {
    Shared(&'g G),
    Excl(&'g mut G),
}

fn st(s: fn_graph::StreamOutcomeState) -> OutState {
    match s {
        fn_graph::StreamOutcomeState::NotStarted => OutState::NotStarted,
        fn_graph::StreamOutcomeState::Interrupted => OutState::Interrupted,
        fn_graph::StreamOutcomeState::Finished => OutState::Finished,
    }
}

fn rec<T>(kind: OutKind, o: fn_graph::StreamOutcome<T>, value: Option<Vec<usize>>, errors: Vec<usize>) -> OutcomeRec {
    OutcomeRec {
        kind,
        state: Some(st(o.state)),
        processed: o.fn_ids_processed.iter().map(|i| i.index()).collect(),
        not_processed: o.fn_ids_not_processed.iter().map(|i| i.index()).collect(),
        value,
        errors,
    }
}

fn rec_fold(kind: OutKind, o: fn_graph::StreamOutcome<Vec<usize>>) -> OutcomeRec {
    let (o, v) = o.replace(());
    rec(kind, o, Some(v), Vec::new())
}

fn rec_result(r: Result<fn_graph::StreamOutcome<()>, (fn_graph::StreamOutcome<()>, Vec<usize>)>) -> OutcomeRec {
    match r {
        Ok(o) => rec(OutKind::Ok, o, None, Vec::new()),
        Err((o, e)) => rec(OutKind::Err, o, None, e),
    }
}

fn rec_control(r: ControlFlow<(fn_graph::StreamOutcome<()>, Vec<usize>), fn_graph::StreamOutcome<()>>) -> OutcomeRec {
    match r {
        ControlFlow::Continue(o) => rec(OutKind::Continue, o, None, Vec::new()),
        ControlFlow::Break((o, e)) => rec(OutKind::Break, o, None, e),
    }
}

fn rec_tryfold(r: Result<fn_graph::StreamOutcome<Vec<usize>>, usize>) -> OutcomeRec {
    match r {
        Ok(o) => rec_fold(OutKind::Ok, o),
        Err(e) => OutcomeRec {
            kind: OutKind::Err,
            state: None,
            processed: Vec::new(),
            not_processed: Vec::new(),
            value: None,
            errors: vec![e],
        },
    }
}

#[cfg(feature = "interruptible")]
fn make_opts<'a>(rs: &RunSpec, w: &Rc<World>, run: usize, shared: Option<&'a mut SharedIntr>) -> StreamOpts<'a, 'a> {
    use interruptible::InterruptibilityState;
    let mut o = StreamOpts::new();
    if rs.reverse {
        for _ in 0..rs.rev_calls.max(1) {
            o = o.rev();
        }
    }
    if let (Some(sh), true) = (shared, rs.share_intr_state && rs.strategy.has_channel()) {
        w.runs.borrow_mut()[run].intr_tx = Some(sh.tx.clone());
        o = o.interruptibility_state(sh.state.reborrow());
        o = o.interrupted_next_item_include(rs.include);
        return o;
    }
    if rs.strategy.has_channel() {
        let (tx, rx) = tokio::sync::mpsc::channel::<interruptible::InterruptSignal>(16);
        w.runs.borrow_mut()[run].intr_tx = Some(tx);
        let state = match rs.strategy {
            Strategy::Ignore => InterruptibilityState::new_ignore_interruptions(rx.into()),
            Strategy::FinishCurrent => InterruptibilityState::new_finish_current(rx.into()),
            Strategy::PollNextN(n) => InterruptibilityState::new_poll_next_n(rx.into(), n),
            Strategy::NonInterruptible => unreachable!(),
        };
        let mut state = state;
        if rs.intr_hooks {
            // the hooks a caller may register (called when the interruption is noticed /
            // when the interrupted item is polled)
            state.set_fn_interrupt_activate(Some(|| {}));
            state.set_fn_interrupt_poll_item(Some(|| {}));
        }
        o = o.interruptibility_state(state);
    }
    o = o.interrupted_next_item_include(rs.include);
    o
}

#[cfg(not(feature = "interruptible"))]
fn make_opts<'a>(rs: &RunSpec, _w: &Rc<World>, _run: usize, _shared: Option<&'a mut SharedIntr>) -> StreamOpts<'a, 'a> {
    let mut o = StreamOpts::new();
    if rs.reverse {
        for _ in 0..rs.rev_calls.max(1) {
            o = o.rev();
        }
    }
    o
}

fn fold_cl<'f, C>(c: C) -> C
where
    C: for<'i> Fn(Vec<usize>, FnWrapper<'i, 'f, SimFn>) -> LocalBoxFuture<'i, Vec<usize>>,
{
    c
}
fn fold_cl_mut<'f, C>(c: C) -> C
where
    C: for<'i> FnMut(Vec<usize>, FnWrapperMut<'i, 'f, SimFn>) -> LocalBoxFuture<'i, Vec<usize>>,
{
    c
}
fn try_fold_cl<'f, C>(c: C) -> C
where
    C: for<'i> Fn(Vec<usize>, FnWrapper<'i, 'f, SimFn>) -> LocalBoxFuture<'i, Result<Vec<usize>, usize>>,
{
    c
}
fn try_fold_cl_mut<'f, C>(c: C) -> C
where
    C: for<'i> FnMut(Vec<usize>, FnWrapperMut<'i, 'f, SimFn>) -> LocalBoxFuture<'i, Result<Vec<usize>, usize>>,
{
    c
}

/// Creates the real future / stream for a run.
pub fn make_root<'g>(acc: Access<'g>, rs: &RunSpec, w: &Rc<World>, run: usize, shared: Option<&'g mut SharedIntr>) -> Root<'g> {
    let api = rs.api;
    let limit = rs.limit;
    let opts = if api.has_opts() {
        Some(make_opts(rs, w, run, shared))
    } else {
        None
    };
    let w2 = w.clone();
    macro_rules! shared {
        () => {
            match acc {
                Access::Shared(g) => g,
                Access::Excl(g) => &*g,
            }
        };
    }
    macro_rules! excl {
        () => {
            match acc {
                Access::Excl(g) => g,
                Access::Shared(_) => panic!("harness: mut API needs exclusive access"),
            }
        };
    }
    match api {
        Api::Stream => {
            let g = shared!();
            Root::Stream(Box::pin(g.stream().map(StreamItem::Fn)))
        }
        Api::StreamWith => {
            let g = shared!();
            Root::Stream(Box::pin(g.stream_with(opts.unwrap()).map(StreamItem::Fn)))
        }
        #[cfg(feature = "interruptible")]
        Api::StreamInterruptible => {
            let g = shared!();
            Root::Stream(Box::pin(g.stream_interruptible().map(map_po)))
        }
        #[cfg(feature = "interruptible")]
        Api::StreamWithInterruptible => {
            let g = shared!();
            Root::Stream(Box::pin(
                g.stream_with_interruptible(opts.unwrap()).map(map_po),
            ))
        }
        #[cfg(not(feature = "interruptible"))]
        Api::StreamInterruptible | Api::StreamWithInterruptible => {
            panic!("harness: API needs the interruptible feature")
        }
        Api::FoldAsync | Api::FoldAsyncWith => {
            let g = shared!();
            let cl = fold_cl(move |mut seed: Vec<usize>, f| {
                let id = f.id;
                let gate: Gate<()> = w2.call(run, id);
                Box::pin(async move {
                    gate.await;
                    seed.push(id);
                    seed
                })
            });
            Root::Fut(Box::pin(async move {
                let o = match opts {
                    None => g.fold_async(Vec::new(), cl).await,
                    Some(o) => g.fold_async_with(Vec::new(), o, cl).await,
                };
                rec_fold(OutKind::Plain, o)
            }))
        }
        Api::FoldAsyncMut | Api::FoldAsyncMutWith => {
            let g = excl!();
            let cl = fold_cl_mut(move |mut seed: Vec<usize>, mut f| {
                f.visits += 1;
                let id = f.id;
                let gate: Gate<()> = w2.call(run, id);
                Box::pin(async move {
                    gate.await;
                    seed.push(id);
                    seed
                })
            });
            Root::Fut(Box::pin(async move {
                let o = match opts {
                    None => g.fold_async_mut(Vec::new(), cl).await,
                    Some(o) => g.fold_async_mut_with(Vec::new(), o, cl).await,
                };
                rec_fold(OutKind::Plain, o)
            }))
        }
        Api::TryFold | Api::TryFoldWith => {
            let g = shared!();
            let cl = try_fold_cl(move |mut seed: Vec<usize>, f| {
                let id = f.id;
                let gate: Gate<Result<(), usize>> = w2.call(run, id);
                Box::pin(async move {
                    gate.await?;
                    seed.push(id);
                    Ok(seed)
                })
            });
            Root::Fut(Box::pin(async move {
                let o = match opts {
                    None => g.try_fold_async(Vec::new(), cl).await,
                    Some(o) => g.try_fold_async_with(Vec::new(), o, cl).await,
                };
                rec_tryfold(o)
            }))
        }
        Api::TryFoldMut | Api::TryFoldMutWith => {
            let g = excl!();
            let cl = try_fold_cl_mut(move |mut seed: Vec<usize>, mut f| {
                f.visits += 1;
                let id = f.id;
                let gate: Gate<Result<(), usize>> = w2.call(run, id);
                Box::pin(async move {
                    gate.await?;
                    seed.push(id);
                    Ok(seed)
                })
            });
            Root::Fut(Box::pin(async move {
                let o = match opts {
                    None => g.try_fold_async_mut(Vec::new(), cl).await,
                    Some(o) => g.try_fold_async_mut_with(Vec::new(), o, cl).await,
                };
                rec_tryfold(o)
            }))
        }
        Api::ForEach | Api::ForEachWith => {
            let g = shared!();
            let cl = move |f: &SimFn| -> Gate<()> { w2.call(run, f.id) };
            Root::Fut(Box::pin(async move {
                let o = match opts {
                    None => g.for_each_concurrent(limit, cl).await,
                    Some(o) => g.for_each_concurrent_with(limit, o, cl).await,
                };
                rec(OutKind::Plain, o, None, Vec::new())
            }))
        }
        Api::ForEachMut | Api::ForEachMutWith => {
            let g = excl!();
            let cl = move |f: &mut SimFn| -> Gate<()> {
                f.visits += 1;
                w2.call(run, f.id)
            };
            Root::Fut(Box::pin(async move {
                let o = match opts {
                    None => g.for_each_concurrent_mut(limit, cl).await,
                    Some(o) => g.for_each_concurrent_mut_with(limit, o, cl).await,
                };
                rec(OutKind::Plain, o, None, Vec::new())
            }))
        }
        Api::TryForEach | Api::TryForEachWith => {
            let g = shared!();
            let cl = move |f: &SimFn| -> Gate<Result<(), usize>> { w2.call(run, f.id) };
            Root::Fut(Box::pin(async move {
                let o = match opts {
                    None => g.try_for_each_concurrent(limit, cl).await,
                    Some(o) => g.try_for_each_concurrent_with(limit, o, cl).await,
                };
                rec_result(o)
            }))
        }
        Api::TryForEachControl | Api::TryForEachControlWith => {
            let g = shared!();
            let cl = move |f: &SimFn| -> Gate<ControlFlow<usize, ()>> { w2.call(run, f.id) };
            Root::Fut(Box::pin(async move {
                let o = match opts {
                    None => g.try_for_each_concurrent_control(limit, cl).await,
                    Some(o) => g.try_for_each_concurrent_control_with(limit, o, cl).await,
                };
                rec_control(o)
            }))
        }
        Api::TryForEachMut | Api::TryForEachMutWith => {
            let g = excl!();
            let cl = move |f: &mut SimFn| -> Gate<Result<(), usize>> {
                f.visits += 1;
                w2.call(run, f.id)
            };
            Root::Fut(Box::pin(async move {
                let o = match opts {
                    None => g.try_for_each_concurrent_mut(limit, cl).await,
                    Some(o) => g.try_for_each_concurrent_mut_with(limit, o, cl).await,
                };
                rec_result(o)
            }))
        }
        Api::TryForEachControlMut | Api::TryForEachControlMutWith => {
            let g = excl!();
            let cl = move |f: &mut SimFn| -> Gate<ControlFlow<usize, ()>> {
                f.visits += 1;
                w2.call(run, f.id)
            };
            Root::Fut(Box::pin(async move {
                let o = match opts {
                    None => g.try_for_each_concurrent_control_mut(limit, cl).await,
                    Some(o) => g.try_for_each_concurrent_control_mut_with(limit, o, cl).await,
                };
                rec_control(o)
            }))
        }
    }
}

#[cfg(feature = "interruptible")]
fn map_po<'g>(p: interruptible::PollOutcome<FnRef<'g, SimFn>>) -> StreamItem<'g> {
    match p {
        interruptible::PollOutcome::NoInterrupt(r) => StreamItem::Fn(r),
        interruptible::PollOutcome::Interrupted(Some(r)) => StreamItem::IntrSome(r),
        interruptible::PollOutcome::Interrupted(None) => StreamItem::IntrNone,
    }
}

// ---------------------------------------------------------------------------
// Driver

pub struct Caps {
    pub polls_after_external: usize,
    pub steps: usize,
}

impl Caps {
    pub fn for_n(n: usize) -> Caps {
        Caps {
            polls_after_external: 64 * (n + 8),
            steps: 4096 + 256 * n,
        }
    }
}

fn new_run_state(rs: &RunSpec, n: usize, built: &Built) -> RunState {
    let fam = rs.api.family();
    let undropped_preds: Vec<usize> = built.preds_dir(rs.reverse).iter().map(|p| p.len()).collect();
    let releasable_unyielded = undropped_preds.iter().filter(|&&c| c == 0).count();
    RunState {
        spec: rs.clone(),
        family_counts_calls_exactly: matches!(fam, Family::Fold | Family::TryFold | Family::Stream),
        gates: (0..n)
            .map(|i| GateSlot {
                spec: rs.gates.get(i).cloned().unwrap_or_default(),
                ..Default::default()
            })
            .collect(),
        started: false,
        finished: false,
        aborted: false,
        stream_alive: false,
        stream_ended: false,
        polls: 0,
        last_pending: false,
        settled: true,
        handouts_started: true,
        self_yields_in_poll: 0,
        intr_tx: None,
        signals_left: rs.signals,
        sender_dropped: false,
        held: Vec::new(),
        carried: Vec::new(),
        carried_done: Vec::new(),
        held_finish: Vec::new(),
        vnow: 0,
        polls_since_external: 0,
        max_polls_since_external: 0,
        call_counter: 0,
        yielded: vec![false; n],
        ref_dropped: vec![false; n],
        intr_delivered: false,
        undropped_preds,
        succs_dir: if rs.api.is_stream() { built.succs_dir(rs.reverse).clone() } else { Vec::new() },
        releasable_unyielded,
    }
}

/// Result of driving one world to its end.
pub struct DriveResult {
    pub events: Vec<Ev>,
    pub schedule: Vec<Step>,
    pub steps: usize,
    pub seams: u64,
    pub mids: u64,
    pub fired: std::collections::BTreeMap<&'static str, u64>,
    pub makespan: Vec<u64>,
    pub wakes_stale: u64,
    /// per run: the executed schedule obeyed the virtual-time discipline (poll to
    /// quiescence, then complete the function with the earliest virtual finish
    /// time; no spurious poll, no event inside a poll)
    pub vt_ok: Vec<bool>,
    /// calibration of the liveness cap: most polls any run needed after its last external event
    pub max_polls_after_external: usize,
    pub n: usize,
}

/// Drives `specs` (all simultaneously) on the given graph.
/// `excl`: give run 0 exclusive access (only valid with exactly one run).
pub type CarriedRefs = Vec<Option<FnRef<'static, SimFn>>>;

/// An interruptibility state (and the sender of its channel) that outlives a run and is
/// handed to several runs through `reborrow()`.
#[cfg(feature = "interruptible")]
pub struct SharedIntr {
    pub state: interruptible::InterruptibilityState<'static, 'static>,
    pub tx: crate::world::IntrTx,
    /// a signal was delivered to the channel during an earlier run
    pub signalled: bool,
}
#[cfg(not(feature = "interruptible"))]
pub struct SharedIntr {
    pub signalled: bool,
}

pub fn drive<'g>(
    graph: &'g mut G,
    built: &Built,
    specs: &[RunSpec],
    scheduler: Box<dyn Scheduler>,
    autostart: bool,
) -> DriveResult {
    drive_carry(graph, built, specs, scheduler, autostart, Vec::new(), None).0
}

/// `carry_in`: FnRefs left over from the previous run (slots of run 0).  Returns
/// the FnRefs run 0 still held when it was told to leave them (`leave_refs`).
/// SAFETY contract: the caller drops the returned refs before the graph.
pub fn drive_carry<'g>(
    graph: &'g mut G,
    built: &Built,
    specs: &[RunSpec],
    scheduler: Box<dyn Scheduler>,
    autostart: bool,
    carry_in: CarriedRefs,
    shared: Option<&'g mut SharedIntr>,
) -> (DriveResult, Vec<FnRef<'static, SimFn>>) {
    let coop = specs.iter().any(|s| s.coop);
    if coop {
        // The whole simulation is the single task of a current-thread runtime, so that
        // tokio's cooperative budget (128 operations per task poll) is in force inside
        // the library's polls.  No timer, no I/O driver, no second task: deterministic.
        thread_local! {
            static RT: tokio::runtime::Runtime =
                tokio::runtime::Builder::new_current_thread().build().expect("harness: runtime");
        }
        RT.with(|rt| rt.block_on(drive_async(graph, built, specs, scheduler, autostart, true, carry_in, shared)))
    } else {
        let mut fut = Box::pin(drive_async(graph, built, specs, scheduler, autostart, false, carry_in, shared));
        let waker = futures::task::noop_waker();
        let mut cx = Context::from_waker(&waker);
        match fut.as_mut().poll(&mut cx) {
            Poll::Ready(r) => r,
            Poll::Pending => panic!("harness: the simulator loop yielded outside coop mode"),
        }
    }
}

/// Consumes `k` units of the current tokio task's cooperative budget: `k` ready
/// receives on a channel of our own.
fn burn_budget(k: usize) {
    thread_local! {
        static CH: std::cell::RefCell<(tokio::sync::mpsc::UnboundedSender<()>, tokio::sync::mpsc::UnboundedReceiver<()>)> =
            std::cell::RefCell::new(tokio::sync::mpsc::unbounded_channel());
    }
    CH.with(|c| {
        let mut c = c.borrow_mut();
        let waker = futures::task::noop_waker();
        let mut cx = Context::from_waker(&waker);
        for _ in 0..k {
            let _ = c.0.send(());
            // Ready(Some) while budget remains; Pending (message stays queued) once exhausted
            if c.1.poll_recv(&mut cx).is_pending() {
                let _ = c.1.try_recv();
                break;
            }
        }
    });
}

/// Returns control to the enclosing runtime once (coop mode): the task budget is
/// refreshed and deferred wake-ups are delivered.
#[derive(Default)]
struct YieldNow(bool);

impl Future for YieldNow {
    type Output = ();
    fn poll(mut self: Pin<&mut Self>, cx: &mut Context<'_>) -> Poll<()> {
        if self.0 {
            Poll::Ready(())
        } else {
            self.0 = true;
            cx.waker().wake_by_ref();
            Poll::Pending
        }
    }
}

async fn drive_async<'g>(
    graph: &'g mut G,
    built: &Built,
    specs: &[RunSpec],
    scheduler: Box<dyn Scheduler>,
    autostart: bool,
    coop: bool,
    carry_in: CarriedRefs,
    shared: Option<&'g mut SharedIntr>,
) -> (DriveResult, Vec<FnRef<'static, SimFn>>) {
    assert!(specs.len() <= MAX_RUNS);
    let mut shared_intr = shared;
    let n = built.n;
    let w = World::new();
    *w.scheduler.borrow_mut() = Some(scheduler);
    {
        let mut runs = w.runs.borrow_mut();
        for (r, rs) in specs.iter().enumerate() {
            runs.push(new_run_state(rs, n, built));
            w.cells[r].strict.set(rs.strict_waker);
        }
        if let Some(r0) = runs.get_mut(0) {
            let slots = r0.spec.carried_slots as usize;
            let mut c = carry_in;
            c.resize_with(slots, || None);
            r0.carried_done = vec![false; slots];
            r0.carried = c;
        }
    }
    set_current(Some(w.clone()));

    let any_mut = specs.iter().any(|s| s.api.is_mut());
    assert!(!any_mut || specs.len() == 1, "harness: mut API only alone");

    let caps = Caps::for_n(n);
    let mut steps = 0usize;
    let mut makespan = vec![0u64; specs.len()];
    let mut vt_ok = vec![true; specs.len()];

    // exclusive or shared access
    let mut excl: Option<&'g mut G> = None;
    let shared: Option<&'g G>;
    if any_mut {
        excl = Some(graph);
        shared = None;
    } else {
        shared = Some(&*graph);
    }

    let mut roots: Vec<Root<'g>> = specs.iter().map(|_| Root::NotStarted).collect();
    // lenient regime: one waker object per task for the whole run, as real executors
    // have (so `Waker::will_wake` shortcuts in the code under test see "same waker")
    let mut task_wakers: Vec<Option<std::task::Waker>> = specs.iter().map(|_| None).collect();

    macro_rules! start_run {
        ($r:expr) => {{
            let r: usize = $r;
            let acc = if specs[r].api.is_mut() {
                Access::Excl(excl.take().expect("harness: exclusive access used twice"))
            } else {
                Access::Shared(shared.expect("harness: shared access"))
            };
            w.push(Ev::Start { run: r });
            let sh = if r == 0 { shared_intr.take() } else { None };
            let pre = sh.as_ref().map_or(false, |s| s.signalled) && specs[r].share_intr_state;
            let res = catch_unwind(AssertUnwindSafe(|| make_root(acc, &specs[r], &w, r, sh)));
            if pre {
                // the shared state already holds (or its channel already carries) a signal
                // from an earlier run: for the oracles this run begins interrupted
                w.push(Ev::Interrupt { run: r, delivered: true, exact: true });
                w.fire("run_started_with_state_interrupted_by_an_earlier_run");
            }
            let mut runs = w.runs.borrow_mut();
            runs[r].started = true;
            match res {
                Ok(root) => {
                    if matches!(root, Root::Stream(_)) {
                        runs[r].stream_alive = true;
                    }
                    roots[r] = root;
                    // a freshly created future must be polled once
                    w.cells[r].woken.set(1);
                }
                Err(p) => {
                    runs[r].finished = true;
                    drop(runs);
                    w.push(Ev::Panic { run: r, msg: panic_msg(&p) });
                    roots[r] = Root::Done;
                }
            }
        }};
    }

    if autostart {
        for r in 0..specs.len() {
            start_run!(r);
        }
    }

    loop {
        // ---- enabled actions -------------------------------------------------
        let mut views: Vec<RunView> = Vec::new();
        let mut all_done = true;
        {
            let runs = w.runs.borrow();
            for (r, rs) in runs.iter().enumerate() {
                if rs.finished && (rs.held.is_empty() || rs.spec.leave_refs) {
                    continue;
                }
                all_done = false;
                let mut actions = Vec::new();
                let mut order: Vec<(u64, Action)> = Vec::new();
                let mut vt: Option<(u64, usize, Action)> = None;
                if !rs.started {
                    actions.push(Action::Start);
                    views.push(RunView {
                        run: r,
                        woken: true,
                        never_polled: true,
                        actions,
                        vt_next: None,
                        in_call_order: Vec::new(),
                    });
                    continue;
                }
                let live_root = !rs.finished;
                let woken = w.cells[r].woken.get() > 0;
                if live_root && (rs.spec.api.is_stream() && rs.stream_alive && !rs.stream_ended || !rs.spec.api.is_stream()) {
                    actions.push(Action::Poll);
                }
                if live_root {
                    for (k, done) in rs.carried_done.iter().enumerate() {
                        if !*done {
                            actions.push(Action::DropCarried(k));
                        }
                    }
                }
                if live_root {
                    for (id, g) in rs.gates.iter().enumerate() {
                        if g.called && !g.ended && !g.released && !g.dropped && !g.spec.immediate {
                            actions.push(Action::Release(id));
                            order.push((g.call_seq, Action::Release(id)));
                            if vt.map_or(true, |(f, i, _)| (g.finish, id) < (f, i)) {
                                vt = Some((g.finish, id, Action::Release(id)));
                            }
                        }
                    }
                    if rs.signals_left > 0
                        && rs.intr_tx.is_some()
                        && (rs.family_counts_calls_exactly || rs.handouts_started || rs.spec.signals_anytime)
                    {
                        actions.push(Action::Interrupt);
                    }
                    if rs.spec.may_drop_sender && rs.intr_tx.is_some() && !rs.sender_dropped {
                        actions.push(Action::DropSender);
                    }
                    if rs.spec.may_abort {
                        if rs.spec.api.is_stream() {
                            if rs.stream_alive {
                                actions.push(Action::DropStream);
                            }
                        } else {
                            actions.push(Action::Abort);
                        }
                    }
                }
                for (k, (id, _)) in rs.held.iter().enumerate() {
                    actions.push(Action::DropRef(*id));
                    order.push((k as u64, Action::DropRef(*id)));
                    let fin = rs
                        .held_finish
                        .iter()
                        .find(|(i, _)| i == id)
                        .map(|x| x.1)
                        .unwrap_or(0);
                    if vt.map_or(true, |(f, i, _)| (fin, *id) < (f, i)) {
                        vt = Some((fin, *id, Action::DropRef(*id)));
                    }
                    if rs.spec.may_forget {
                        actions.push(Action::ForgetRef(*id));
                    }
                }
                order.sort_by_key(|x| x.0);
                views.push(RunView {
                    run: r,
                    woken,
                    never_polled: rs.polls == 0,
                    actions,
                    vt_next: vt.map(|x| x.2),
                    in_call_order: order.into_iter().map(|x| x.1).collect(),
                });
            }
        }
        if all_done {
            break;
        }

        // ---- dead-state detection (before any spurious poll could hide it) ---
        let mut dead: Option<(usize, &'static str)> = None;
        {
            let runs = w.runs.borrow();
            for v in &views {
                let rs = &runs[v.run];
                if !rs.started || rs.finished {
                    continue;
                }
                if !rs.last_pending || v.woken {
                    continue;
                }
                let can_wake = v.actions.iter().any(|a| {
                    matches!(a, Action::Release(_) | Action::DropRef(_))
                });
                if can_wake {
                    continue;
                }
                if rs.spec.api.is_stream() {
                    // blocked for good by forgotten refs, or consumer stopped: not a
                    // violation by itself (the stall oracle decides); end the run.
                    continue;
                }
                let unobserved = rs
                    .gates
                    .iter()
                    .any(|g| g.called && !g.ended && !g.dropped);
                dead = Some((
                    v.run,
                    if unobserved {
                        "a completed user future is never polled again"
                    } else {
                        "pending with no wake-up and no user future in flight"
                    },
                ));
                break;
            }
        }
        if let Some((r, why)) = dead {
            w.push(Ev::Dead { run: r, why });
            finish_run(&w, &mut roots, r);
            continue;
        }

        // streams that can make no further progress (blocked by forgotten refs or
        // dropped stream with nothing held): end them
        {
            let mut ended_any = false;
            let mut runs = w.runs.borrow_mut();
            for v in &views {
                let rs = &mut runs[v.run];
                if rs.started && !rs.finished && rs.spec.api.is_stream() {
                    let idle = rs.last_pending && !v.woken;
                    let nothing = !v
                        .actions
                        .iter()
                        .any(|a| matches!(a, Action::DropRef(_) | Action::ForgetRef(_)));
                    // a consumer told to walk away does so as soon as its stream is gone
                    let walk_away = rs.spec.leave_refs && (!rs.stream_alive || rs.stream_ended);
                    if walk_away || (idle && nothing) || (!rs.stream_alive && nothing) || (rs.stream_ended && nothing) {
                        rs.finished = true;
                        ended_any = true;
                    }
                }
            }
            if ended_any {
                drop(runs);
                for r in 0..roots.len() {
                    if w.runs.borrow()[r].finished && !matches!(roots[r], Root::Done | Root::NotStarted) {
                        let root = std::mem::replace(&mut roots[r], Root::Done);
                        let _ = catch_unwind(AssertUnwindSafe(move || drop(root)));
                    }
                }
                continue;
            }
        }

        // ---- caps -----------------------------------------------------------
        steps += 1;
        if steps > caps.steps {
            w.push(Ev::StepCap);
            break;
        }
        let mut capped = None;
        {
            let runs = w.runs.borrow();
            for v in &views {
                let rs = &runs[v.run];
                if rs.started && !rs.finished && rs.polls_since_external > caps.polls_after_external {
                    capped = Some(v.run);
                }
            }
        }
        if let Some(r) = capped {
            w.push(Ev::LiveCap { run: r });
            finish_run(&w, &mut roots, r);
            continue;
        }

        // ---- choose ---------------------------------------------------------
        let choice = {
            let mut s = w.scheduler.borrow_mut();
            s.as_mut().unwrap().next(&views)
        };
        let Some((r, action)) = choice else {
            break;
        };
        debug_assert!(views.iter().any(|v| v.run == r && v.actions.contains(&action)));

        // ---- virtual-time discipline bookkeeping --------------------------------
        if let Some(v) = views.iter().find(|v| v.run == r) {
            match action {
                Action::Release(_) | Action::DropRef(_) => {
                    if v.woken || v.vt_next != Some(action) {
                        vt_ok[r] = false;
                    }
                }
                Action::Poll => {
                    if !v.woken {
                        vt_ok[r] = false;
                    }
                }
                Action::Start => {}
                _ => vt_ok[r] = false,
            }
        }

        // ---- perform --------------------------------------------------------
        w.mid_buf.borrow_mut().clear();
        match action {
            Action::Start => start_run!(r),
            Action::Poll => {
                poll_run(&w, &mut roots, r, built, &mut makespan, coop, &mut task_wakers[r]).await;
            }
            Action::Release(_) | Action::Interrupt | Action::DropSender | Action::DropRef(_) | Action::ForgetRef(_) => {
                if matches!(action, Action::Interrupt) {
                    let runs = w.runs.borrow();
                    let rs = &runs[r];
                    w.fire(if rs.polls == 0 {
                        "interrupt_before_first_poll"
                    } else if w.cells[r].woken.get() > 0 {
                        "interrupt_while_woken"
                    } else {
                        "interrupt_while_idle"
                    });
                }
                w.perform_external(r, action);
            }
            Action::DropCarried(k) => {
                let fr = {
                    let mut runs = w.runs.borrow_mut();
                    let rs = &mut runs[r];
                    rs.polls_since_external = 0;
                    rs.carried_done[k] = true;
                    rs.carried[k].take()
                };
                w.push(Ev::CarriedRefDrop { run: r, slot: k });
                if fr.is_some() {
                    w.fire("ref_of_earlier_stream_dropped_during_later_run");
                }
                if let Err(p) = catch_unwind(AssertUnwindSafe(move || drop(fr))) {
                    w.push(Ev::Panic { run: r, msg: format!("dropping an FnRef of an earlier stream: {}", panic_msg(&p)) });
                }
            }
            Action::DropStream => {
                let root = std::mem::replace(&mut roots[r], Root::Done);
                w.push(Ev::StreamDrop { run: r });
                w.fire("stream_dropped_early");
                {
                    let mut runs = w.runs.borrow_mut();
                    runs[r].stream_alive = false;
                    runs[r].polls_since_external = 0;
                }
                if let Err(p) = catch_unwind(AssertUnwindSafe(move || drop(root))) {
                    w.push(Ev::Panic { run: r, msg: panic_msg(&p) });
                }
            }
            Action::Abort => {
                w.push(Ev::Abort { run: r });
                w.fire("abort");
                let root = std::mem::replace(&mut roots[r], Root::Done);
                let res = catch_unwind(AssertUnwindSafe(move || drop(root)));
                {
                    let mut runs = w.runs.borrow_mut();
                    runs[r].finished = true;
                    runs[r].aborted = true;
                    runs[r].intr_tx = None;
                }
                if let Err(p) = res {
                    w.push(Ev::Panic { run: r, msg: panic_msg(&p) });
                }
            }
        }
        let mids = std::mem::take(&mut *w.mid_buf.borrow_mut());
        if !mids.is_empty() {
            vt_ok[r] = false;
        }
        w.schedule.borrow_mut().push(Step {
            run: r,
            action,
            mids,
        });

        // ---- stream stall oracle (online: needs the waker flag) -----------------
        check_stall(&w, built, r);
    }

    // a stream's work is over when the last FnRef is dropped, not when it yields None
    {
        let runs = w.runs.borrow();
        for (r, rs) in runs.iter().enumerate() {
            if rs.spec.api.is_stream() {
                makespan[r] = rs.vnow;
            }
        }
    }
    // teardown: futures and held refs go before the graph
    for root in roots.iter_mut() {
        let root = std::mem::replace(root, Root::Done);
        let _ = catch_unwind(AssertUnwindSafe(move || drop(root)));
    }
    let mut left: Vec<FnRef<'static, SimFn>> = Vec::new();
    let held: Vec<_> = {
        let mut runs = w.runs.borrow_mut();
        if let Some(r0) = runs.get_mut(0) {
            if r0.spec.leave_refs {
                left = std::mem::take(&mut r0.held).into_iter().map(|x| x.1).collect();
            }
        }
        runs.iter_mut()
            .flat_map(|rs| {
                rs.intr_tx = None;
                let c: Vec<_> = std::mem::take(&mut rs.carried).into_iter().flatten().map(|f| (usize::MAX, f)).collect();
                let mut h = std::mem::take(&mut rs.held);
                h.extend(c);
                h
            })
            .collect()
    };
    w.polling.set(None);
    let _ = catch_unwind(AssertUnwindSafe(move || drop(held)));
    *w.scheduler.borrow_mut() = None;
    // wakers stored in gate slots
    {
        let mut runs = w.runs.borrow_mut();
        for rs in runs.iter_mut() {
            for g in rs.gates.iter_mut() {
                g.waker = None;
                g.prev_waker = None;
            }
        }
    }
    set_current(None);

    let wakes_stale = w.cells.iter().map(|c| c.wakes_stale.get()).sum();
    let max_polls_after_external = w
        .runs
        .borrow()
        .iter()
        .map(|r| r.max_polls_since_external)
        .max()
        .unwrap_or(0);
    let events = std::mem::take(&mut *w.events.borrow_mut());
    let schedule = std::mem::take(&mut *w.schedule.borrow_mut());
    let fired = std::mem::take(&mut *w.fired.borrow_mut());
    (DriveResult {
        events,
        schedule,
        steps,
        seams: w.seams_total.get(),
        mids: w.mids_done.get(),
        fired,
        makespan,
        wakes_stale,
        vt_ok,
        max_polls_after_external,
        n,
    }, left)
}

fn finish_run(w: &Rc<World>, roots: &mut [Root<'_>], r: usize) {
    {
        let mut runs = w.runs.borrow_mut();
        runs[r].finished = true;
        runs[r].intr_tx = None;
    }
    let root = std::mem::replace(&mut roots[r], Root::Done);
    if let Err(p) = catch_unwind(AssertUnwindSafe(move || drop(root))) {
        w.push(Ev::Panic {
            run: r,
            msg: panic_msg(&p),
        });
    }
}

async fn poll_run<'g>(
    w: &Rc<World>,
    roots: &mut [Root<'g>],
    r: usize,
    built: &Built,
    makespan: &mut [u64],
    coop: bool,
    task_waker: &mut Option<std::task::Waker>,
) {
    let cell = &w.cells[r];
    let spurious = cell.woken.get() == 0;
    if spurious {
        w.fire("spurious_poll");
    }
    cell.woken.set(0);
    if cell.strict.get() {
        cell.gen.set(cell.gen.get() + 1);
    }
    {
        let mut runs = w.runs.borrow_mut();
        let rs = &mut runs[r];
        rs.polls += 1;
        rs.polls_since_external += 1;
        rs.max_polls_since_external = rs.max_polls_since_external.max(rs.polls_since_external);
        rs.self_yields_in_poll = 0;
    }
    let waker = if cell.strict.get() {
        // strict regime: a fresh waker per poll; older ones do not count
        w.make_waker(r)
    } else {
        task_waker.get_or_insert_with(|| w.make_waker(r)).clone()
    };
    let mut cx = Context::from_waker(&waker);
    if coop {
        let (burn, polls) = {
            let runs = w.runs.borrow();
            (runs[r].spec.coop_burn, runs[r].polls)
        };
        if burn > 0 && polls % 3 == 1 {
            // the caller has used up part (or all) of its task's cooperative budget
            // before it gets to poll the call
            burn_budget(burn as usize);
            w.fire("coop_budget_used_up_by_caller_before_poll");
        }
    }
    w.push(Ev::PollBegin { run: r });
    w.polling.set(Some(r));
    w.seam_ord.set(0);
    enum Res<'g> {
        Pending,
        Out(OutcomeRec),
        Item(Option<StreamItem<'g>>),
    }
    let res = {
        let root = &mut roots[r];
        catch_unwind(AssertUnwindSafe(|| match root {
            Root::Fut(f) => match f.as_mut().poll(&mut cx) {
                Poll::Pending => Res::Pending,
                Poll::Ready(o) => Res::Out(o),
            },
            Root::Stream(s) => match s.as_mut().poll_next(&mut cx) {
                Poll::Pending => Res::Pending,
                Poll::Ready(i) => Res::Item(i),
            },
            Root::NotStarted | Root::Done => panic!("harness: polled a finished run"),
        }))
    };
    w.polling.set(None);
    drop(waker);
    // wake-ups signalled while the poll itself ran (not the ones tokio deferred)
    let woken_in_poll = cell.woken.get();
    if coop {
        // wake-ups deferred by an exhausted budget are delivered when the runtime gets
        // control; only then is "no wake-up outstanding" meaningful
        let before = cell.woken.get();
        YieldNow::default().await;
        if cell.woken.get() > before {
            w.fire("coop_budget_exhausted");
        }
    }
    match res {
        Err(p) => {
            w.push(Ev::Poll { run: r, ready: false });
            w.push(Ev::Panic {
                run: r,
                msg: panic_msg(&p),
            });
            finish_run(w, roots, r);
        }
        Ok(Res::Pending) => {
            w.push(Ev::Poll { run: r, ready: false });
            let settled = cell.woken.get() == 0;
            {
                let mut runs = w.runs.borrow_mut();
                let rs = &mut runs[r];
                rs.last_pending = true;
                rs.settled = settled;
                rs.handouts_started = woken_in_poll == 0;
                if rs.self_yields_in_poll > 0 {
                    w.fire("self_yield");
                }
            }
            if settled {
                w.push(Ev::Idle { run: r });
            }
        }
        Ok(Res::Out(o)) => {
            w.push(Ev::Poll { run: r, ready: true });
            makespan[r] = w.runs.borrow()[r].vnow;
            w.push(Ev::Return { run: r, outcome: o });
            finish_run(w, roots, r);
        }
        Ok(Res::Item(item)) => {
            let mut runs = w.runs.borrow_mut();
            let rs = &mut runs[r];
            rs.last_pending = false;
            rs.settled = cell.woken.get() == 0;
            rs.handouts_started = woken_in_poll == 0;
            // a Ready(Some) means the consumer will poll again: keep it runnable
            match item {
                None => {
                    rs.stream_ended = true;
                    makespan[r] = rs.vnow;
                    w.push(Ev::StreamEnd { run: r });
                }
                Some(StreamItem::IntrNone) => {
                    w.push(Ev::YieldIntrNone { run: r });
                    cell.woken.set(cell.woken.get() + 1);
                }
                Some(it @ (StreamItem::Fn(_) | StreamItem::IntrSome(_))) => {
                    let (fr, interrupted) = match it {
                        StreamItem::Fn(fr) => (fr, false),
                        StreamItem::IntrSome(fr) => (fr, true),
                        StreamItem::IntrNone => unreachable!(),
                    };
                    let id = fr.id;
                    let fin = rs.vnow + rs.gates.get(id).map(|g| g.spec.dur as u64).unwrap_or(1);
                    // SAFETY: the graph outlives every held ref – `drive` drops all of
                    // them before it returns, and it borrows the graph for 'g.
                    let fr: FnRef<'static, SimFn> = unsafe { std::mem::transmute(fr) };
                    rs.held.push((id, fr));
                    rs.held_finish.push((id, fin));
                    if id < rs.yielded.len() && !rs.yielded[id] {
                        rs.yielded[id] = true;
                        if rs.undropped_preds[id] == 0 {
                            rs.releasable_unyielded = rs.releasable_unyielded.saturating_sub(1);
                        }
                    }
                    w.push(Ev::Yield { run: r, id, interrupted });
                    cell.woken.set(cell.woken.get() + 1);
                }
            }
            // the item belongs to this poll: it is logged before the poll's end
            w.push(Ev::Poll { run: r, ready: true });
            let _ = built;
        }
    }
}

/// C05 stall detection: evaluated after every action on stream runs.
fn check_stall(w: &Rc<World>, built: &Built, r: usize) {
    let stalled = {
        let runs = w.runs.borrow();
        let Some(rs) = runs.get(r) else { return };
        if !rs.spec.api.is_stream() || !rs.stream_alive || rs.stream_ended || rs.finished {
            return;
        }
        if !rs.last_pending || w.cells[r].woken.get() > 0 {
            return;
        }
        if rs.intr_delivered && rs.spec.strategy.interrupts() {
            // after a signal the stream may legitimately stop yielding
            return;
        }
        if rs.releasable_unyielded == 0 {
            return;
        }
        let (yielded, dropped) = (&rs.yielded, &rs.ref_dropped);
        let preds = built.preds_dir(rs.spec.reverse);
        let mut found = None;
        for id in 0..built.n {
            if !yielded[id] && preds[id].iter().all(|&p| yielded[p] && dropped[p]) {
                found = Some(id);
                break;
            }
        }
        found
    };
    if let Some(id) = stalled {
        w.push(Ev::Stalled { run: r, id });
        w.runs.borrow_mut()[r].finished = true;
    }
}

// ---------------------------------------------------------------------------
// Case execution

pub struct CaseResult {
    /// one DriveResult per world (history mode: one per run, then the fresh probe)
    pub drives: Vec<DriveResult>,
    pub built: Built,
}

pub enum CaseError {
    BuildPanic(String),
}

/// `mk_sched(world_index)` supplies the scheduler for each world.
pub fn run_case(
    case: &CaseSpec,
    mk_sched: &mut dyn FnMut(usize) -> Box<dyn Scheduler>,
) -> Result<CaseResult, CaseError> {
    let (mut graph, built) = build_graph(&case.graph).map_err(|e| CaseError::BuildPanic(e.0))?;
    let mut drives = Vec::new();
    match case.mode {
        Mode::Single => {
            let d = drive(&mut graph, &built, &case.runs[..1], mk_sched(0), true);
            drives.push(d);
        }
        Mode::Concurrent => {
            let d = drive(&mut graph, &built, &case.runs, mk_sched(0), false);
            drives.push(d);
        }
        Mode::History => {
            let k = case.runs.len();
            // the reference comes first: the last run on a freshly built graph, before
            // anything else has happened (so state that an earlier run leaves anywhere -
            // in the graph value or outside it - can only affect the reused-graph run)
            let (mut fresh, _b2) = build_graph(&case.graph).map_err(|e| CaseError::BuildPanic(e.0))?;
            let fresh_drive = drive(
                &mut fresh,
                &built,
                std::slice::from_ref(&case.runs[k - 1]),
                mk_sched(k),
                true,
            );
            drop(fresh);
            let mut carry: Vec<FnRef<'static, SimFn>> = Vec::new();
            let mut shared_intr: Option<SharedIntr> = None;
            for (i, rs) in case.runs.iter().enumerate() {
                if rs.share_intr_state && rs.strategy.has_channel() && shared_intr.is_none() {
                    shared_intr = new_shared_intr(rs);
                }
                // FnRefs the previous run's consumer walked away with (they borrow the
                // graph, not the stream) fill this run's slots; surplus ones are dropped now
                let slots = rs.carried_slots as usize;
                let mut carry_in: CarriedRefs = Vec::new();
                let mut surplus = Vec::new();
                for (k, f) in std::mem::take(&mut carry).into_iter().enumerate() {
                    if k < slots {
                        carry_in.push(Some(f));
                    } else {
                        surplus.push(f);
                    }
                }
                let _ = catch_unwind(AssertUnwindSafe(move || drop(surplus)));
                // the last run executes the schedule that its reference (the same run on the
                // fresh graph) recorded: same external events in the same order
                let sched: Box<dyn Scheduler> = if i + 1 == k {
                    Box::new(crate::sched::ListScheduler::new(fresh_drive.schedule.clone()))
                } else {
                    mk_sched(i)
                };
                let sh = if rs.share_intr_state { shared_intr.as_mut() } else { None };
                let (d, left) = drive_carry(&mut graph, &built, std::slice::from_ref(rs), sched, true, carry_in, sh);
                if rs.share_intr_state {
                    if let Some(s) = shared_intr.as_mut() {
                        if d.events.iter().any(|e| matches!(e, Ev::Interrupt { delivered: true, .. })) {
                            s.signalled = true;
                        }
                    }
                }
                carry = left;
                drives.push(d);
            }
            let _ = catch_unwind(AssertUnwindSafe(move || drop(carry)));
            // drives = [run 0 .. run k-1 on the reused graph, probe on the fresh graph]
            drives.push(fresh_drive);
        }
    }
    drop(graph);
    Ok(CaseResult { drives, built })
}
