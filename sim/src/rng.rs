//! Seeded PRNG. One integer decides a run: every draw of a run comes from a
//! generator initialised from `mix(VERIF_SEED, property tag, run index)`.

#[inline]
pub fn splitmix64(x: &mut u64) -> u64 {
    *x = x.wrapping_add(0x9E37_79B9_7F4A_7C15);
    let mut z = *x;
    z = (z ^ (z >> 30)).wrapping_mul(0xBF58_476D_1CE4_E5B9);
    z = (z ^ (z >> 27)).wrapping_mul(0x94D0_49BB_1331_11EB);
    z ^ (z >> 31)
}

/// Order-sensitive mixing of several integers into one seed.
pub fn mix(parts: &[u64]) -> u64 {
    let mut s = 0x243F_6A88_85A3_08D3u64;
    for &p in parts {
        s ^= p;
        let _ = splitmix64(&mut s);
        s = s.rotate_left(23) ^ p.wrapping_mul(0x9E37_79B9_7F4A_7C15);
    }
    let mut t = s;
    splitmix64(&mut t)
}

/// xoshiro256**
#[derive(Clone, Debug)]
pub struct Rng {
    s: [u64; 4],
    pub draws: u64,
}

impl Rng {
    pub fn new(seed: u64) -> Self {
        let mut x = seed;
        let s = [
            splitmix64(&mut x),
            splitmix64(&mut x),
            splitmix64(&mut x),
            splitmix64(&mut x),
        ];
        Rng { s, draws: 0 }
    }

    #[inline]
    pub fn next_u64(&mut self) -> u64 {
        self.draws += 1;
        let result = self.s[1].wrapping_mul(5).rotate_left(7).wrapping_mul(9);
        let t = self.s[1] << 17;
        self.s[2] ^= self.s[0];
        self.s[3] ^= self.s[1];
        self.s[1] ^= self.s[2];
        self.s[0] ^= self.s[3];
        self.s[2] ^= t;
        self.s[3] = self.s[3].rotate_left(45);
        result
    }

    /// Uniform in `0..n` (n > 0).
    #[inline]
    pub fn below(&mut self, n: usize) -> usize {
        debug_assert!(n > 0);
        ((self.next_u64() >> 11) % (n as u64)) as usize
    }

    /// Uniform in `lo..=hi`.
    #[inline]
    pub fn range(&mut self, lo: usize, hi: usize) -> usize {
        lo + self.below(hi - lo + 1)
    }

    /// True with probability `num/den`.
    #[inline]
    pub fn chance(&mut self, num: u32, den: u32) -> bool {
        (self.next_u64() >> 11) % (den as u64) < num as u64
    }

    /// Index drawn according to integer weights (at least one weight > 0).
    pub fn weighted(&mut self, weights: &[u32]) -> usize {
        let total: u64 = weights.iter().map(|&w| w as u64).sum();
        debug_assert!(total > 0);
        let mut x = (self.next_u64() >> 11) % total;
        for (i, &w) in weights.iter().enumerate() {
            if x < w as u64 {
                return i;
            }
            x -= w as u64;
        }
        weights.len() - 1
    }

    pub fn shuffle<T>(&mut self, v: &mut [T]) {
        for i in (1..v.len()).rev() {
            let j = self.below(i + 1);
            v.swap(i, j);
        }
    }
}

/// FNV-1a 64 used for trace hashes and distinct-case counting.
#[derive(Clone, Copy)]
pub struct Fnv(pub u64);

impl Fnv {
    pub fn new() -> Self {
        Fnv(0xcbf2_9ce4_8422_2325)
    }
    #[inline]
    pub fn u8(&mut self, b: u8) {
        self.0 ^= b as u64;
        self.0 = self.0.wrapping_mul(0x0000_0100_0000_01B3);
    }
    #[inline]
    pub fn u64(&mut self, v: u64) {
        for i in 0..8 {
            self.u8((v >> (8 * i)) as u8);
        }
    }
    #[inline]
    pub fn usize(&mut self, v: usize) {
        self.u64(v as u64)
    }
    pub fn bytes(&mut self, b: &[u8]) {
        for &x in b {
            self.u8(x);
        }
    }
}
