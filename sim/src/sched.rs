//! The two schedulers: PRNG-driven (search) and list-driven (replay).

use crate::{
    rng::Rng,
    spec::{Action, Step},
    world::{RunView, Scheduler, SeamKind},
};

#[derive(Clone, Copy, Debug, PartialEq, Eq)]
pub enum Policy {
    Uniform,
    PollEager,
    PollLazy,
    /// whatever is outstanding completes before the next poll (sequential
    /// consumption: `while let Some(f) = stream.next().await { .. drop(f) }`)
    ExternalFirst,
}

#[derive(Clone, Copy, Debug, PartialEq, Eq)]
pub enum Order {
    Random,
    Lifo,
    Fifo,
    VirtualTime,
}

#[derive(Clone, Debug)]
pub struct SchedParams {
    pub policy: Policy,
    pub order: Order,
    /// spurious poll probability numerator over 16
    pub spurious_16: u32,
    /// mid-poll event probability numerator over 16
    pub mid_16: u32,
    /// per-step probability (over 64) of taking an enabled abort / drop-stream
    pub abort_64: u32,
    /// per-step probability (over 64) of sending an enabled interrupt
    pub interrupt_64: u32,
    /// send the first signal before the first poll
    pub interrupt_first: bool,
    pub forget_64: u32,
    pub drop_sender_64: u32,
    /// consumer: prefer dropping several refs between polls
    pub multi_drop: bool,
    /// per-step probability (over 64) of starting a burst: a run of external
    /// events (releases / FnRef drops) with no poll in between
    pub burst_64: u32,
}

impl SchedParams {
    pub fn to_json(&self) -> serde_json::Value {
        serde_json::json!({
            "policy": format!("{:?}", self.policy),
            "order": format!("{:?}", self.order),
            "spurious_16": self.spurious_16,
            "mid_16": self.mid_16,
            "abort_64": self.abort_64,
            "interrupt_64": self.interrupt_64,
            "interrupt_first": self.interrupt_first,
            "forget_64": self.forget_64,
            "drop_sender_64": self.drop_sender_64,
            "multi_drop": self.multi_drop,
            "burst_64": self.burst_64,
        })
    }
}

pub struct RunSched {
    pub rng: Rng,
    pub p: SchedParams,
    pub mids_this_poll: u32,
    pub burst_left: usize,
    pub fired_burst: bool,
}

impl RunSched {
    fn pick_external(&mut self, v: &RunView, ext: &[Action]) -> Action {
        match self.p.order {
            Order::Random => ext[self.rng.below(ext.len())],
            Order::VirtualTime => match v.vt_next {
                Some(a) if ext.contains(&a) => a,
                _ => ext[self.rng.below(ext.len())],
            },
            Order::Fifo => v
                .in_call_order
                .iter()
                .copied()
                .find(|a| ext.contains(a))
                .unwrap_or_else(|| ext[0]),
            Order::Lifo => v
                .in_call_order
                .iter()
                .rev()
                .copied()
                .find(|a| ext.contains(a))
                .unwrap_or_else(|| ext[0]),
        }
    }

    fn pick(&mut self, v: &RunView) -> Action {
        let acts = &v.actions;
        if acts.len() == 1 {
            return acts[0];
        }
        if acts.contains(&Action::Start) {
            return Action::Start;
        }
        // rare, plan-driven actions first
        if self.p.interrupt_first && v.never_polled && acts.contains(&Action::Interrupt) {
            return Action::Interrupt;
        }
        for a in acts {
            let p = match a {
                Action::Abort | Action::DropStream => self.p.abort_64,
                Action::Interrupt => self.p.interrupt_64,
                Action::DropSender => self.p.drop_sender_64,
                Action::DropCarried(_) => 6,
                _ => 0,
            };
            if p > 0 && self.rng.chance(p, 64) {
                return *a;
            }
        }
        if self.p.forget_64 > 0 {
            let forgets: Vec<Action> = acts
                .iter()
                .copied()
                .filter(|a| matches!(a, Action::ForgetRef(_)))
                .collect();
            if !forgets.is_empty() && self.rng.chance(self.p.forget_64, 64) {
                return forgets[self.rng.below(forgets.len())];
            }
        }
        let poll_ok = acts.contains(&Action::Poll);
        let ext: Vec<Action> = acts
            .iter()
            .copied()
            .filter(|a| matches!(a, Action::Release(_) | Action::DropRef(_)))
            .collect();
        if ext.is_empty() {
            if poll_ok {
                return Action::Poll;
            }
            // only rare actions are enabled: take the first
            return acts[0];
        }
        if !poll_ok {
            return self.pick_external(v, &ext);
        }
        // bursts: everything (or a good part of what is) outstanding completes before
        // the task is polled again
        if self.burst_left > 0 {
            self.burst_left -= 1;
            return self.pick_external(v, &ext);
        }
        let spurious = !v.woken && self.p.spurious_16 > 0 && self.rng.chance(self.p.spurious_16, 16);
        if spurious {
            return Action::Poll;
        }
        let want_external = match self.p.policy {
            Policy::PollEager => !v.woken,
            Policy::ExternalFirst => true,
            Policy::PollLazy => {
                let stay = if self.p.multi_drop { 13 } else { 11 };
                !v.woken || self.rng.chance(stay, 16)
            }
            Policy::Uniform => {
                if v.woken && self.rng.below(ext.len() + 1) == 0 {
                    false
                } else {
                    !(v.woken && self.rng.chance(1, 2))
                }
            }
        };
        if !want_external {
            return Action::Poll;
        }
        // a burst starts where the policy would have delivered one event anyway (so an
        // eager poller first accumulates everything that can be outstanding)
        if self.p.burst_64 > 0 && ext.len() >= 2 && self.rng.chance(self.p.burst_64, 64) {
            self.burst_left = match self.rng.below(3) {
                0 => ext.len() - 1,
                1 => ext.len() / 2,
                _ => self.rng.below(ext.len()),
            };
            self.fired_burst = true;
        }
        self.pick_external(v, &ext)
    }
}

pub struct RandomScheduler {
    pub global: Rng,
    pub runs: Vec<RunSched>,
    /// simultaneous runs: run r is not started before this many global steps
    /// (while another run can still act) - so that a run is also created when the
    /// others are half-way or nearly done
    pub start_hold: Vec<u32>,
    pub steps: u32,
}

impl Scheduler for RandomScheduler {
    fn next(&mut self, enabled: &[RunView]) -> Option<(usize, Action)> {
        let mut cands: Vec<&RunView> = enabled.iter().filter(|v| !v.actions.is_empty()).collect();
        if cands.is_empty() {
            return None;
        }
        self.steps += 1;
        if cands.len() > 1 {
            let held: Vec<&RunView> = cands
                .iter()
                .copied()
                .filter(|v| {
                    !(v.actions.contains(&Action::Start)
                        && self.start_hold.get(v.run).copied().unwrap_or(0) >= self.steps)
                })
                .collect();
            if !held.is_empty() {
                cands = held;
            }
        }
        let v = if cands.len() == 1 {
            cands[0]
        } else {
            cands[self.global.below(cands.len())]
        };
        let rs = &mut self.runs[v.run];
        rs.mids_this_poll = 0;
        Some((v.run, rs.pick(v)))
    }

    fn mid(&mut self, run: usize, _ord: u32, kind: SeamKind, enabled: &[Action]) -> Option<Action> {
        let rs = &mut self.runs[run];
        if rs.p.mid_16 == 0 || rs.mids_this_poll >= 2 {
            return None;
        }
        // waker-registration seams are by far the most frequent: thin them out
        let den = if kind == SeamKind::WakerClone { 32 } else { 16 };
        if !rs.rng.chance(rs.p.mid_16, den) {
            return None;
        }
        rs.mids_this_poll += 1;
        Some(enabled[rs.rng.below(enabled.len())])
    }
}

/// Replays an explicit schedule.  A listed action that is not enabled is
/// skipped; after the list a fixed tail policy drives the case to its end.
pub struct ListScheduler {
    pub steps: Vec<Step>,
    pub pos: usize,
    pub cur_mids: Vec<(u32, Action)>,
    pub tail_steps: usize,
}

impl ListScheduler {
    pub fn new(steps: Vec<Step>) -> Self {
        ListScheduler {
            steps,
            pos: 0,
            cur_mids: Vec::new(),
            tail_steps: 0,
        }
    }
}

impl Scheduler for ListScheduler {
    fn next(&mut self, enabled: &[RunView]) -> Option<(usize, Action)> {
        self.cur_mids.clear();
        while self.pos < self.steps.len() {
            let st = &self.steps[self.pos];
            self.pos += 1;
            if enabled
                .iter()
                .any(|v| v.run == st.run && v.actions.contains(&st.action))
            {
                self.cur_mids = st.mids.clone();
                return Some((st.run, st.action));
            }
        }
        // tail policy
        self.tail_steps += 1;
        for v in enabled {
            if v.actions.contains(&Action::Start) {
                return Some((v.run, Action::Start));
            }
        }
        for v in enabled {
            if v.woken && v.actions.contains(&Action::Poll) {
                return Some((v.run, Action::Poll));
            }
        }
        for v in enabled {
            if let Some(a) = v
                .actions
                .iter()
                .copied()
                .find(|a| matches!(a, Action::Release(_)))
            {
                return Some((v.run, a));
            }
        }
        for v in enabled {
            if let Some(a) = v
                .actions
                .iter()
                .copied()
                .find(|a| matches!(a, Action::DropRef(_)))
            {
                return Some((v.run, a));
            }
        }
        for v in enabled {
            if v.actions.contains(&Action::Poll) {
                return Some((v.run, Action::Poll));
            }
        }
        None
    }

    fn mid(&mut self, _run: usize, ord: u32, _kind: SeamKind, enabled: &[Action]) -> Option<Action> {
        self.cur_mids
            .iter()
            .find(|(o, a)| *o == ord && enabled.contains(a))
            .map(|(_, a)| *a)
    }
}
