//! C14: the sequential iteration methods.  No schedule exists here; the fault
//! dimension – which invocation fails – is enumerated exhaustively per sampled
//! graph.

use std::{
    collections::HashSet,
    panic::{catch_unwind, AssertUnwindSafe},
    sync::{
        atomic::{AtomicBool, AtomicU64, Ordering},
        Mutex,
    },
    time::Instant,
};

use serde_json::{json, Value};

use crate::{
    exec::{build_graph, panic_msg, Built, G},
    gen::{gen_graph, pick_decl_mode, Prop},
    rng::{mix, Fnv, Rng},
    spec::GraphSpec,
};

#[derive(Clone, Debug)]
pub struct SeqViolation {
    pub class: &'static str,
    pub op: String,
    pub msg: String,
}

fn check_order(op: &str, ids: &[usize], built: &Built, reverse: bool) -> Option<SeqViolation> {
    let n = built.n;
    let mut pos = vec![usize::MAX; n];
    for (p, &i) in ids.iter().enumerate() {
        if i >= n || pos[i] != usize::MAX {
            return Some(SeqViolation {
                class: "not-exactly-once",
                op: op.into(),
                msg: format!("{op} visited {ids:?}: function {i} repeated or unknown"),
            });
        }
        pos[i] = p;
    }
    if ids.len() != n {
        return Some(SeqViolation {
            class: "not-exactly-once",
            op: op.into(),
            msg: format!("{op} visited {} of {n} functions: {ids:?}", ids.len()),
        });
    }
    for &(a, b, _) in &built.edges {
        let ok = if reverse { pos[b] < pos[a] } else { pos[a] < pos[b] };
        if !ok {
            return Some(SeqViolation {
                class: "order",
                op: op.into(),
                msg: format!(
                    "{op} visited {ids:?}: edge {a}->{b} of the built graph is not respected{}",
                    if reverse { " (reverse)" } else { "" }
                ),
            });
        }
    }
    None
}

pub struct SeqCount {
    pub traversals: u64,
}

/// Runs every sequential method on the graph; enumerates every failing position.
pub fn check_graph(gs: &GraphSpec, count: &mut SeqCount) -> Result<Option<SeqViolation>, String> {
    let (mut g, built): (G, Built) = build_graph(gs).map_err(|e| e.0)?;
    let n = built.n;
    let r = catch_unwind(AssertUnwindSafe(|| -> Option<SeqViolation> {
        // iter
        let ids: Vec<usize> = g.iter().map(|f| f.id).collect();
        count.traversals += 1;
        if let Some(v) = check_order("iter", &ids, &built, false) {
            return Some(v);
        }
        // toposort
        let mut topo = g.toposort();
        let mut ids = Vec::new();
        while let Some(i) = topo.next(&g.graph) {
            ids.push(g.graph[i].id);
        }
        count.traversals += 1;
        if let Some(v) = check_order("toposort", &ids, &built, false) {
            return Some(v);
        }
        // iter_rev
        let ids: Vec<usize> = g.iter_rev().map(|f| f.id).collect();
        count.traversals += 1;
        if let Some(v) = check_order("iter_rev", &ids, &built, true) {
            return Some(v);
        }
        // map
        let ids: Vec<usize> = g.map(|f| f.id).collect();
        count.traversals += 1;
        if let Some(v) = check_order("map", &ids, &built, false) {
            return Some(v);
        }
        // fold
        let ids: Vec<usize> = g.fold(Vec::new(), |mut acc, f| {
            acc.push(f.id);
            acc
        });
        count.traversals += 1;
        if let Some(v) = check_order("fold", &ids, &built, false) {
            return Some(v);
        }
        // for_each
        let mut ids = Vec::new();
        g.for_each(|f| ids.push(f.id));
        count.traversals += 1;
        if let Some(v) = check_order("for_each", &ids, &built, false) {
            return Some(v);
        }
        let reference = ids.clone();
        // two iterators alive at the same time (nested / zipped loops) are independent
        if n >= 2 {
            let mut outer = g.iter();
            let mut out_ids = Vec::new();
            if let Some(f) = outer.next() {
                out_ids.push(f.id);
            }
            let inner: Vec<usize> = g.iter().map(|f| f.id).collect();
            let inner_rev: Vec<usize> = g.iter_rev().map(|f| f.id).collect();
            out_ids.extend(outer.map(|f| f.id));
            count.traversals += 3;
            for (op, ids, rev) in [("iter (outer of two live iterators)", &out_ids, false), ("iter (inner)", &inner, false), ("iter_rev (inner)", &inner_rev, true)] {
                if let Some(mut v) = check_order("iter", ids, &built, rev) {
                    v.op = op.into();
                    v.msg = format!("{op}: {}", v.msg);
                    return Some(v);
                }
            }
        }
        // a lazy map() iterator that is dropped half-way must not disturb later calls
        for k in [1usize, n / 2] {
            if k == 0 || k >= n {
                continue;
            }
            {
                let mut it = g.map(|f| f.id);
                let mut part = Vec::new();
                for _ in 0..k {
                    if let Some(x) = it.next() {
                        part.push(x);
                    }
                }
                count.traversals += 1;
                // the consumed prefix itself must be a valid prefix
                let mut seen = vec![false; n];
                for &i in &part {
                    if i >= n || seen[i] || built.preds[i].iter().any(|&p| !seen[p]) {
                        return Some(SeqViolation {
                            class: "order",
                            op: "map (partially consumed)".into(),
                            msg: format!("map() yielded prefix {part:?} which is not a prefix of a valid order"),
                        });
                    }
                    seen[i] = true;
                }
            }
            let mut ids = Vec::new();
            g.for_each(|f| ids.push(f.id));
            count.traversals += 1;
            if let Some(mut v) = check_order("for_each", &ids, &built, false) {
                v.op = "for_each after a partially consumed map()".into();
                v.msg = format!("after map() was dropped after {k} items: {}", v.msg);
                return Some(v);
            }
            let ids: Vec<usize> = g.iter().map(|f| f.id).collect();
            count.traversals += 1;
            if let Some(mut v) = check_order("iter", &ids, &built, false) {
                v.msg = format!("after map() was dropped after {k} items: {}", v.msg);
                return Some(v);
            }
        }
        // try_fold / try_for_each: no failure, then every failing position
        for k in 0..=n {
            let fail_at = if k == n { None } else { Some(k) };
            for which in 0..2 {
                let op = if which == 0 { "try_fold" } else { "try_for_each" };
                let mut visited: Vec<usize> = Vec::new();
                let res: Result<(), usize> = if which == 0 {
                    g.try_fold((), |(), f| {
                        visited.push(f.id);
                        if Some(visited.len() - 1) == fail_at {
                            Err(f.id)
                        } else {
                            Ok(())
                        }
                    })
                } else {
                    g.try_for_each(|f| {
                        visited.push(f.id);
                        if Some(visited.len() - 1) == fail_at {
                            Err(f.id)
                        } else {
                            Ok(())
                        }
                    })
                };
                count.traversals += 1;
                match fail_at {
                    None => {
                        if res.is_err() {
                            return Some(SeqViolation {
                                class: "error-handling",
                                op: op.into(),
                                msg: format!("{op} returned {res:?} although nothing failed"),
                            });
                        }
                        if let Some(v) = check_order(op, &visited, &built, false) {
                            return Some(v);
                        }
                    }
                    Some(k) => {
                        if visited.len() != k + 1 {
                            return Some(SeqViolation {
                                class: "error-handling",
                                op: op.into(),
                                msg: format!("{op} with invocation {k} failing made {} invocations: {visited:?}", visited.len()),
                            });
                        }
                        if res != Err(visited[k]) {
                            return Some(SeqViolation {
                                class: "error-handling",
                                op: op.into(),
                                msg: format!("{op} with invocation {k} (function {}) failing returned {res:?}", visited[k]),
                            });
                        }
                        // the visited prefix must be a prefix of a valid order
                        let mut seen = vec![false; n];
                        for &i in &visited {
                            if i >= n || seen[i] {
                                return Some(SeqViolation {
                                    class: "not-exactly-once",
                                    op: op.into(),
                                    msg: format!("{op} visited {visited:?}"),
                                });
                            }
                            for &p in &built.preds[i] {
                                if !seen[p] {
                                    return Some(SeqViolation {
                                        class: "order",
                                        op: op.into(),
                                        msg: format!("{op} visited {visited:?}: {i} before its predecessor {p}"),
                                    });
                                }
                            }
                            seen[i] = true;
                        }
                    }
                }
            }
        }
        let _ = reference;
        // insertion iterators
        let ids: Vec<usize> = g.iter_insertion().map(|f| f.id).collect();
        let want: Vec<usize> = (0..n).collect();
        count.traversals += 1;
        if ids != want {
            return Some(SeqViolation {
                class: "insertion-order",
                op: "iter_insertion".into(),
                msg: format!("iter_insertion gave {ids:?}"),
            });
        }
        // the iterator is ExactSize + DoubleEnded: length and back-to-front order, too
        let it = g.iter_insertion();
        let len = it.len();
        let back: Vec<usize> = it.rev().map(|f| f.id).collect();
        count.traversals += 1;
        if len != n || back != want.iter().rev().copied().collect::<Vec<_>>() {
            return Some(SeqViolation {
                class: "insertion-order",
                op: "iter_insertion().rev()".into(),
                msg: format!("iter_insertion: len {len}, reversed {back:?}"),
            });
        }
        let ids: Vec<usize> = g.iter_insertion_mut().map(|f| f.id).collect();
        count.traversals += 1;
        if ids != want {
            return Some(SeqViolation {
                class: "insertion-order",
                op: "iter_insertion_mut".into(),
                msg: format!("iter_insertion_mut gave {ids:?}"),
            });
        }
        let ids: Vec<(usize, usize)> = g
            .iter_insertion_with_indices()
            .map(|(i, f)| (i.index(), f.id))
            .collect();
        count.traversals += 1;
        if ids != want.iter().map(|&i| (i, i)).collect::<Vec<_>>() {
            return Some(SeqViolation {
                class: "insertion-order",
                op: "iter_insertion_with_indices".into(),
                msg: format!("iter_insertion_with_indices gave {ids:?}"),
            });
        }
        None
    }));
    match r {
        Ok(v) => Ok(v),
        Err(p) => Ok(Some(SeqViolation {
            class: "panic",
            op: "?".into(),
            msg: format!("panic: {}", panic_msg(&p)),
        })),
    }
}

fn gen_seq_graph(seed: u64) -> GraphSpec {
    let mut rng = Rng::new(seed);
    let n = match rng.below(50) {
        0..=4 => rng.below(2),
        5..=34 => rng.range(2, 7),
        35..=47 => rng.range(8, 24),
        48 => rng.range(25, 70),
        // beyond the usual small-size fast paths (insertion-sort cut-offs, 64, 128, 256)
        _ => [129, 257, 300][rng.below(3)],
    };
    let dm = pick_decl_mode(&mut rng, true);
    gen_graph(&mut rng, n, dm)
}

fn graph_hash(g: &GraphSpec) -> u64 {
    let mut h = Fnv::new();
    h.usize(g.fns.len());
    h.u8(g.provenance);
    for f in &g.fns {
        h.u64(f.reads as u64);
        h.u64(f.writes as u64);
        h.u8(f.style);
        h.u8(f.own);
    }
    for e in &g.calls {
        h.usize(e.from);
        h.usize(e.to);
        h.u8(e.kind as u8);
        h.u64(e.batch as u64);
    }
    h.0
}

fn minimise(gs: &GraphSpec, class: &str) -> GraphSpec {
    let mut g = gs.clone();
    let still = |c: &GraphSpec| -> bool {
        let mut cnt = SeqCount { traversals: 0 };
        matches!(check_graph(c, &mut cnt), Ok(Some(v)) if v.class == class)
    };
    let mut progress = true;
    while progress {
        progress = false;
        let mut i = g.fns.len();
        while i > 0 {
            i -= 1;
            let mut c = g.clone();
            c.fns.remove(i);
            c.calls.retain(|e| e.from != i && e.to != i);
            for e in c.calls.iter_mut() {
                if e.from > i {
                    e.from -= 1;
                }
                if e.to > i {
                    e.to -= 1;
                }
            }
            if still(&c) {
                g = c;
                progress = true;
            }
        }
        let mut i = g.calls.len();
        while i > 0 {
            i -= 1;
            let mut c = g.clone();
            c.calls.remove(i);
            if still(&c) {
                g = c;
                progress = true;
            }
        }
        for i in 0..g.fns.len() {
            for k in 0..crate::spec::N_TYPES {
                let bit = 1u16 << k;
                if g.fns[i].reads & bit != 0 {
                    let mut c = g.clone();
                    c.fns[i].reads &= !bit;
                    if still(&c) {
                        g = c;
                        progress = true;
                    }
                }
                if g.fns[i].writes & bit != 0 {
                    let mut c = g.clone();
                    c.fns[i].writes &= !bit;
                    if still(&c) {
                        g = c;
                        progress = true;
                    }
                }
            }
        }
    }
    g
}

pub fn check_c14(base: u64, runs: u64, threads: usize, out: Option<&str>, replay_dir: &str, build: &str) -> i32 {
    let t0 = Instant::now();
    let next = AtomicU64::new(0);
    let stop = AtomicBool::new(false);
    let found: Mutex<Option<(u64, GraphSpec, SeqViolation)>> = Mutex::new(None);
    let harness: Mutex<Vec<String>> = Mutex::new(Vec::new());
    struct Acc {
        graphs: u64,
        traversals: u64,
        distinct: HashSet<u64>,
        nontrivial: u64,
        max_n: usize,
        fail_positions: u64,
    }
    let acc = Mutex::new(Acc {
        graphs: 0,
        traversals: 0,
        distinct: HashSet::new(),
        nontrivial: 0,
        max_n: 0,
        fail_positions: 0,
    });
    let feat: u64 = if build == "I" { 0x4949 } else { 0 };
    std::thread::scope(|sc| {
        for _ in 0..threads {
            sc.spawn(|| {
                let mut graphs = 0u64;
                let mut cnt = SeqCount { traversals: 0 };
                let mut distinct = HashSet::new();
                let mut nontrivial = 0;
                let mut max_n = 0;
                let mut fail_positions = 0u64;
                loop {
                    if stop.load(Ordering::Relaxed) {
                        break;
                    }
                    let start = next.fetch_add(32, Ordering::Relaxed);
                    if start >= runs {
                        break;
                    }
                    for index in start..(start + 32).min(runs) {
                        let gs = gen_seq_graph(mix(&[base ^ feat, Prop::C14.tag(), index]));
                        graphs += 1;
                        max_n = max_n.max(gs.fns.len());
                        match check_graph(&gs, &mut cnt) {
                            Err(m) => {
                                harness.lock().unwrap().push(format!("index {index}: build() panicked: {m}"));
                                stop.store(true, Ordering::Relaxed);
                            }
                            Ok(Some(v)) => {
                                let mut f = found.lock().unwrap();
                                if f.as_ref().map_or(true, |x| index < x.0) {
                                    *f = Some((index, gs.clone(), v));
                                }
                                stop.store(true, Ordering::Relaxed);
                            }
                            Ok(None) => {}
                        }
                        if gs.fns.len() >= 2 {
                            nontrivial += 1;
                            fail_positions += 2 * gs.fns.len() as u64;
                            if distinct.len() < (1 << 20) {
                                distinct.insert(graph_hash(&gs));
                            }
                        }
                    }
                }
                let mut a = acc.lock().unwrap();
                a.graphs += graphs;
                a.traversals += cnt.traversals;
                a.nontrivial += nontrivial;
                a.max_n = a.max_n.max(max_n);
                a.fail_positions += fail_positions;
                for h in distinct {
                    a.distinct.insert(h);
                }
            });
        }
    });
    let harness = harness.into_inner().unwrap();
    if !harness.is_empty() {
        for h in harness {
            println!("HARNESS-ERROR: {h}");
        }
        return 2;
    }
    let a = acc.into_inner().unwrap();
    let mut code = 0;
    let mut violation = Value::Null;
    if let Some((index, gs, v)) = found.into_inner().unwrap() {
        let m = minimise(&gs, v.class);
        let mut cnt = SeqCount { traversals: 0 };
        let mv = match check_graph(&m, &mut cnt) {
            Ok(Some(x)) => x,
            _ => v.clone(),
        };
        let _ = std::fs::create_dir_all(replay_dir);
        let path = format!("{replay_dir}/C14-{build}-{base}-{index}.json");
        let rj = json!({
            "format": "fgsim-seq-replay-1",
            "property": "C14",
            "violation_class": mv.class,
            "operation": mv.op,
            "message": mv.msg,
            "verif_seed": base,
            "run_index": index,
            "graph": m.to_json(),
            "original_functions": gs.fns.len(),
        });
        std::fs::write(&path, serde_json::to_string_pretty(&rj).unwrap()).expect("write replay");
        let exe = std::env::current_exe().unwrap();
        let o = std::process::Command::new(exe).arg("replay").arg(&path).output();
        let ok = matches!(&o, Ok(o) if o.status.code() == Some(1) && String::from_utf8_lossy(&o.stdout).contains(&format!("class={}", mv.class)));
        if !ok {
            println!("HARNESS-ERROR: C14 violation at index {index} did not reproduce from {path}");
            return 2;
        }
        println!("violation: class={} run_index={index} :: {}", mv.class, mv.msg);
        println!("VIOLATION property=C14 replay={path}");
        violation = json!({"class": mv.class, "message": mv.msg, "replay": path, "run_index": index});
        code = 1;
    }
    if let Some(out) = out {
        let mut samples = Vec::new();
        for index in 0..3u64.min(runs) {
            let gs = gen_seq_graph(mix(&[base ^ feat, Prop::C14.tag(), index]));
            let visited: Vec<usize> = match build_graph(&gs) {
                Ok((g, _)) => g.iter().map(|f| f.id).collect(),
                Err(_) => Vec::new(),
            };
            samples.push(json!({"run_index": index, "graph": gs.to_json(), "iter_order": visited,
                "failing_positions_enumerated": (0..gs.fns.len()).collect::<Vec<_>>() }));
        }
        let j = json!({
            "build": build,
            "property": "C14",
            "seed": base,
            "wall_s": t0.elapsed().as_secs_f64(),
            "evaluations": a.traversals,
            "nontrivial": a.nontrivial,
            "distinct_nontrivial": a.distinct.len(),
            "distinct_capped": false,
            "distinct_graphs": a.distinct.len(),
            "distinct_traces": 0,
            "simulator_steps": 0,
            "trace_events": 0,
            "root_polls": 0,
            "seam_crossings": 0,
            "mid_poll_events": 0,
            "stale_wakes_not_counted": 0,
            "simulated_time_units": 0,
            "max_functions": a.max_n,
            "step_caps": 0,
            "liveness_cap_max_use_permille": 0,
            "step_cap_max_use_permille": 0,
            "counters": {"graphs": a.graphs, "fault.failing_position_enumerated": a.fail_positions},
            "samples": samples,
            "violation": violation,
            "known_findings_hit": {},
        });
        std::fs::write(out, serde_json::to_string(&j).unwrap()).expect("write partial evidence");
    }
    code
}

pub fn replay(v: &Value, path: &str) -> i32 {
    let Some(gs) = v.get("graph").and_then(GraphSpec::from_json) else {
        eprintln!("bad seq replay file");
        return 2;
    };
    let mut cnt = SeqCount { traversals: 0 };
    match check_graph(&gs, &mut cnt) {
        Err(m) => {
            println!("HARNESS-ERROR: build() panicked: {m}");
            2
        }
        Ok(Some(x)) => {
            println!("replayed: class={} :: {}", x.class, x.msg);
            println!("VIOLATION property=C14 replay={path}");
            1
        }
        Ok(None) => {
            println!("replayed: no violation");
            0
        }
    }
}

pub fn determinism(base: u64, runs: u64) -> i32 {
    for i in 0..runs {
        let gs = gen_seq_graph(mix(&[base, Prop::C14.tag(), i]));
        println!("{i} {:016x}", graph_hash(&gs));
    }
    0
}
