//! Seeded generation of cases: graph families, access declarations, API and
//! options, fault plans, scheduler parameters.  Swarm style – every run draws its
//! own configuration.

use crate::{
    rng::Rng,
    sched::{Order, Policy, SchedParams},
    spec::*,
};

#[derive(Clone, Copy, Debug, PartialEq, Eq, PartialOrd, Ord, Hash)]
pub enum Prop {
    C01,
    C02,
    C03,
    C04,
    C05,
    C06,
    C07,
    C08,
    C09,
    C10,
    C14,
    C15,
    C20,
}

impl Prop {
    pub fn from_str(s: &str) -> Option<Prop> {
        Some(match s {
            "C01" => Prop::C01,
            "C02" => Prop::C02,
            "C03" => Prop::C03,
            "C04" => Prop::C04,
            "C05" => Prop::C05,
            "C06" => Prop::C06,
            "C07" => Prop::C07,
            "C08" => Prop::C08,
            "C09" => Prop::C09,
            "C10" => Prop::C10,
            "C14" => Prop::C14,
            "C15" => Prop::C15,
            "C20" => Prop::C20,
            _ => return None,
        })
    }
    pub fn name(self) -> &'static str {
        match self {
            Prop::C01 => "C01",
            Prop::C02 => "C02",
            Prop::C03 => "C03",
            Prop::C04 => "C04",
            Prop::C05 => "C05",
            Prop::C06 => "C06",
            Prop::C07 => "C07",
            Prop::C08 => "C08",
            Prop::C09 => "C09",
            Prop::C10 => "C10",
            Prop::C14 => "C14",
            Prop::C15 => "C15",
            Prop::C20 => "C20",
        }
    }
    pub fn tag(self) -> u64 {
        self as u64 + 1
    }
}

pub const FEATURE_I: bool = cfg!(feature = "interruptible");

// ---------------------------------------------------------------------------
// Graphs

#[derive(Clone, Copy, Debug, PartialEq, Eq)]
pub enum DeclMode {
    None,
    ReadOnly,
    ConflictHeavy,
    SameRank,
    Random,
}

fn pick_n(rng: &mut Rng, allow_wide: bool, wide_share_pct: u32, min_n: usize) -> usize {
    let x = rng.below(100) as u32;
    let n = if allow_wide && x < wide_share_pct {
        // wide: beyond any plausible fixed channel size
        // ... and, rarely, beyond 256
        const WIDE: [usize; 8] = [25, 33, 40, 65, 66, 129, 130, 160];
        if rng.chance(1, 40) {
            // beyond 1024 (only the shapes whose build() is cheap, see family_edges)
            [1030, 1100, 2100][rng.below(3)]
        } else if rng.chance(1, 12) {
            [257, 300][rng.below(2)]
        } else {
            WIDE[rng.below(WIDE.len())]
        }
    } else if x < wide_share_pct + 25 {
        rng.range(8, 24)
    } else {
        // small: 0..=7 with extra weight on the corner cases
        const SMALL: [usize; 16] = [0, 1, 1, 2, 2, 3, 3, 3, 4, 4, 4, 5, 5, 6, 6, 7];
        SMALL[rng.below(SMALL.len())]
    };
    n.max(min_n)
}

/// Returns edges over *topological positions* 0..n (from < to).
fn family_edges(rng: &mut Rng, n: usize, fam: &mut String) -> Vec<(usize, usize)> {
    let mut e = Vec::new();
    if n < 2 {
        *fam = if n == 0 { "empty" } else { "singleton" }.to_string();
        return e;
    }
    // above 1000 functions only shapes for which build() (pairwise path search) stays cheap
    let k = if n > 1000 { [1usize, 2, 5][rng.below(3)] } else { rng.below(12) };
    match k {
        0 => {
            *fam = "chain".into();
            for i in 0..n - 1 {
                e.push((i, i + 1));
            }
        }
        1 => {
            *fam = "out-star".into();
            for i in 1..n {
                e.push((0, i));
            }
        }
        2 => {
            *fam = "in-star".into();
            for i in 0..n - 1 {
                e.push((i, n - 1));
            }
        }
        3 => {
            *fam = "diamond-ladder".into();
            // a -> {b,c} -> d -> {e,f} -> g ...
            let mut i = 0;
            while i + 3 < n {
                e.push((i, i + 1));
                e.push((i, i + 2));
                e.push((i + 1, i + 3));
                e.push((i + 2, i + 3));
                i += 3;
            }
            while i + 1 < n {
                e.push((i, i + 1));
                i += 1;
            }
        }
        4 => {
            *fam = "layered".into();
            let w = rng.range(2, 4.min(n));
            let dense = rng.chance(1, 2);
            let layers: Vec<Vec<usize>> = (0..n).collect::<Vec<_>>().chunks(w).map(|c| c.to_vec()).collect();
            for l in 0..layers.len().saturating_sub(1) {
                for &a in &layers[l] {
                    for &b in &layers[l + 1] {
                        if dense || rng.chance(1, 2) {
                            e.push((a, b));
                        }
                    }
                }
            }
        }
        5 => {
            *fam = "independent".into();
        }
        6 | 7 => {
            *fam = "random-sparse".into();
            let m = rng.range(1, n + n / 2);
            for _ in 0..m {
                let a = rng.below(n - 1);
                let b = rng.range(a + 1, n - 1);
                e.push((a, b));
            }
        }
        8 => {
            *fam = "random-dense".into();
            for a in 0..n {
                for b in a + 1..n {
                    if rng.chance(2, 5) {
                        e.push((a, b));
                    }
                }
            }
        }
        9 => {
            *fam = "two-components".into();
            let h = n / 2;
            for i in 0..h.saturating_sub(1) {
                if rng.chance(3, 4) {
                    e.push((i, i + 1));
                }
            }
            for i in h..n - 1 {
                if rng.chance(3, 4) {
                    e.push((i, i + 1));
                }
            }
        }
        10 => {
            *fam = "multi-parent".into();
            // every node picks 1..3 parents among earlier ones
            for b in 1..n {
                let k = rng.range(1, 3.min(b));
                for _ in 0..k {
                    e.push((rng.below(b), b));
                }
            }
        }
        _ => {
            *fam = "upstream-six".into();
            // a - b - c - e ; d - e ; f   (complex_graph of the upstream tests), padded
            if n >= 6 {
                e.extend_from_slice(&[(0, 1), (0, 2), (1, 4), (2, 3), (3, 4), (5, 4)]);
                for i in 6..n {
                    e.push((rng.below(i), i));
                }
            } else {
                for i in 0..n - 1 {
                    e.push((i, i + 1));
                }
            }
        }
    }
    e
}

/// Number of queue pops `RankCalc` performs = number of root-to-node paths.
/// `build()` walks every path (property C18, not decidable by this technique),
/// so the generator keeps the path count bounded or a run would never start.
fn path_count(n: usize, edges: &[(usize, usize)]) -> u64 {
    let mut uniq: Vec<(usize, usize)> = edges.to_vec();
    uniq.sort();
    uniq.dedup();
    let mut paths = vec![0u64; n];
    let mut has_parent = vec![false; n];
    for &(_, b) in &uniq {
        has_parent[b] = true;
    }
    for i in 0..n {
        if !has_parent[i] {
            paths[i] = 1;
        }
    }
    // positions are topological: from < to
    let mut by_from: Vec<Vec<usize>> = vec![Vec::new(); n];
    for &(a, b) in &uniq {
        by_from[a].push(b);
    }
    for a in 0..n {
        let pa = paths[a];
        for &b in &by_from[a] {
            paths[b] = paths[b].saturating_add(pa);
        }
    }
    paths.iter().fold(0u64, |s, &p| s.saturating_add(p))
}

pub const PATH_BUDGET: u64 = 20_000;

pub fn gen_graph(rng: &mut Rng, n: usize, decl_mode: DeclMode) -> GraphSpec {
    let mut fam = String::new();
    let mut edges = family_edges(rng, n, &mut fam);
    while path_count(n, &edges) > PATH_BUDGET {
        // thin out until build() is tractable
        let keep = edges.len() * 3 / 4;
        rng.shuffle(&mut edges);
        edges.truncate(keep);
        if !fam.ends_with("-thinned") {
            fam.push_str("-thinned");
        }
    }
    // ids are a random permutation of topological positions, so that insertion
    // order is not a topological order
    let mut perm: Vec<usize> = (0..n).collect();
    if rng.chance(3, 4) {
        rng.shuffle(&mut perm);
    }
    let mut calls: Vec<EdgeCall> = Vec::new();
    // swarm: all logic / all contains / mixed
    let kind_mode = rng.below(10);
    for &(a, b) in &edges {
        let kind = match kind_mode {
            0..=2 => EdgeKind::Logic,
            3 => EdgeKind::Contains,
            _ => {
                if rng.chance(2, 3) {
                    EdgeKind::Logic
                } else {
                    EdgeKind::Contains
                }
            }
        };
        calls.push(EdgeCall {
            from: perm[a],
            to: perm[b],
            kind,
            batch: 0,
        });
    }
    rng.shuffle(&mut calls);
    // the way a user would: duplicates, kind overwrites, rejected calls
    if n >= 2 && rng.chance(1, 4) {
        let extra = rng.range(1, 3);
        for _ in 0..extra {
            match rng.below(4) {
                0 if !calls.is_empty() => {
                    // duplicate / kind overwrite
                    let c = calls[rng.below(calls.len())].clone();
                    let kind = if rng.chance(1, 2) {
                        EdgeKind::Logic
                    } else {
                        EdgeKind::Contains
                    };
                    let pos = rng.below(calls.len() + 1);
                    calls.insert(pos, EdgeCall { kind, ..c });
                }
                1 if !calls.is_empty() => {
                    // reversed pair: rejected if it comes after the original
                    let c = calls[rng.below(calls.len())].clone();
                    calls.push(EdgeCall {
                        from: c.to,
                        to: c.from,
                        kind: c.kind,
                        batch: 0,
                    });
                }
                2 => {
                    let a = rng.below(n);
                    calls.push(EdgeCall {
                        from: a,
                        to: a,
                        kind: EdgeKind::Logic,
                        batch: 0,
                    });
                }
                _ => {
                    // random edge in any direction: accepted or rejected as the builder decides
                    let a = rng.below(n);
                    let b = rng.below(n);
                    let pos = rng.below(calls.len() + 1);
                    calls.insert(
                        pos,
                        EdgeCall {
                            from: a,
                            to: b,
                            kind: EdgeKind::Logic,
                            batch: 0,
                        },
                    );
                }
            }
        }
    }

    // the batch forms of the builder API: some consecutive same-kind calls become one
    // `add_*_edges([..])` call; a batch may restate an earlier edge and contain an
    // edge that is rejected
    if calls.len() >= 2 && rng.chance(1, 5) {
        let mut next_id = 1u32;
        let mut i = 0;
        while i + 1 < calls.len() {
            let len = rng.range(2, 3).min(calls.len() - i);
            if rng.chance(1, 2) && (i..i + len).all(|k| calls[k].kind == calls[i].kind) {
                for k in i..i + len {
                    calls[k].batch = next_id;
                }
                next_id += 1;
                i += len;
            } else {
                i += 1;
            }
        }
        if rng.chance(1, 3) {
            // the same (possibly new) pair twice inside one batch call
            let c = calls[rng.below(calls.len())].clone();
            let id = next_id;
            next_id += 1;
            let pos = rng.below(calls.len() + 1);
            calls.insert(pos, EdgeCall { batch: id, ..c.clone() });
            calls.insert(pos, EdgeCall { batch: id, ..c });
        }
        if rng.chance(1, 3) && n >= 2 {
            // a batch that restates an accepted edge and then closes a cycle
            let c = calls[rng.below(calls.len())].clone();
            calls.push(EdgeCall { batch: next_id, ..c.clone() });
            calls.push(EdgeCall {
                from: c.to,
                to: c.from,
                kind: c.kind,
                batch: next_id,
            });
        }
    }

    // declarations
    let ntypes = match decl_mode {
        DeclMode::ConflictHeavy | DeclMode::SameRank => rng.range(1, 2),
        _ => match rng.below(4) {
            0 => rng.range(1, 3),
            1 | 2 => rng.range(1, 6),
            // beyond the inline capacity (8) of the TypeIds small-vector
            _ => rng.range(7, N_TYPES),
        },
    };
    let greedy = ntypes > 8 && rng.chance(1, 2);
    // swarm: a third of the graphs use the unusual (legal) ways of returning the lists
    let list_styles = rng.chance(1, 3);
    // swarm: every function also has data of its own (real graphs have hundreds of types)
    let private_types = n <= 512 && rng.chance(1, 3);
    let mut fns = Vec::with_capacity(n);
    for _ in 0..n {
        let (mut r, mut w) = (0u16, 0u16);
        match decl_mode {
            DeclMode::None => {}
            DeclMode::ReadOnly => {
                for k in 0..ntypes {
                    if greedy || rng.chance(1, 2) {
                        r |= 1 << k;
                    }
                }
            }
            DeclMode::ConflictHeavy | DeclMode::SameRank => {
                for k in 0..ntypes {
                    match rng.below(6) {
                        0 => {}
                        1 | 2 => r |= 1 << k,
                        3 | 4 => w |= 1 << k,
                        _ => {
                            r |= 1 << k;
                            w |= 1 << k;
                        }
                    }
                }
            }
            DeclMode::Random => {
                for k in 0..ntypes {
                    match if greedy { rng.range(3, 7) } else { rng.below(8) } {
                        0..=3 => {}
                        4 | 5 => r |= 1 << k,
                        6 => w |= 1 << k,
                        _ => {
                            r |= 1 << k;
                            w |= 1 << k;
                        }
                    }
                }
            }
        }
        let style = if list_styles { rng.below(16) as u8 } else { 0 };
        let own = if private_types { rng.range(1, 2) as u8 } else { 0 };
        fns.push(FnDecl { reads: r, writes: w, style, own });
    }
    // swarm: a fifth of the graphs are run as a clone / as an older value refreshed by clone_from
    let provenance = if n <= 300 && rng.chance(1, 5) { rng.range(1, 4) as u8 } else { 0 };
    GraphSpec {
        fns,
        calls,
        family: fam,
        provenance,
    }
}

pub fn pick_decl_mode(rng: &mut Rng, conflict_bias: bool) -> DeclMode {
    let x = rng.below(100);
    if conflict_bias {
        match x {
            0..=9 => DeclMode::None,
            10..=19 => DeclMode::ReadOnly,
            20..=54 => DeclMode::ConflictHeavy,
            55..=74 => DeclMode::SameRank,
            _ => DeclMode::Random,
        }
    } else {
        match x {
            0..=24 => DeclMode::None,
            25..=39 => DeclMode::ReadOnly,
            40..=59 => DeclMode::ConflictHeavy,
            _ => DeclMode::Random,
        }
    }
}

// ---------------------------------------------------------------------------
// Runs

#[derive(Clone, Copy, Debug, PartialEq, Eq)]
pub enum FailPlan {
    None,
    One,
    Two,
    Many,
    All,
    Last,
}

#[derive(Clone, Debug)]
pub struct RunKnobs {
    pub apis: Vec<Api>,
    pub allow_fail: bool,
    pub force_fail: bool,
    pub allow_interrupt: bool,
    pub force_interrupt: bool,
    pub allow_limit: bool,
    pub limit_bias: bool,
    pub allow_abort: bool,
    pub allow_forget: bool,
    pub held_bias: bool,
}

pub fn apis_for(fams: &[Family], shared_only: bool) -> Vec<Api> {
    ALL_APIS
        .iter()
        .copied()
        .filter(|a| fams.contains(&a.family()))
        .filter(|a| FEATURE_I || !a.needs_feature())
        .filter(|a| !shared_only || !a.is_mut())
        .collect()
}

pub fn gen_run(rng: &mut Rng, n: usize, k: &RunKnobs) -> RunSpec {
    let api = k.apis[rng.below(k.apis.len())];
    let reverse = api.has_opts() && rng.chance(2, 5);
    let limit = if api.has_limit() && k.allow_limit {
        let x = rng.below(100);
        if k.limit_bias {
            match x {
                0..=9 => None,
                10..=14 => Some(0),
                15..=39 => Some(1),
                40..=64 => Some(2),
                65..=76 => Some(3),
                77..=80 => Some(rng.range(4, 16)),
                81..=82 => Some([63, 64, 65, 128, usize::MAX, u32::MAX as usize][rng.below(6)]),
                83..=90 => Some(n.max(1)),
                _ => Some(n + 1),
            }
        } else {
            match x {
                0..=44 => None,
                45..=49 => Some(0),
                50..=64 => Some(1),
                65..=74 => Some(2),
                75..=80 => Some(3),
                81..=84 => Some(rng.range(4, 16)),
                85..=86 => Some([63, 64, 65, 128, usize::MAX, u32::MAX as usize][rng.below(6)]),
                87..=93 => Some(n.max(1)),
                _ => Some(n + 1),
            }
        }
    } else {
        None
    };
    let mut strategy = Strategy::NonInterruptible;
    let mut include = true;
    let mut signals = 0u8;
    let mut may_drop_sender = false;
    if FEATURE_I && api.interruptible() && k.allow_interrupt {
        let x = rng.below(100);
        strategy = if k.force_interrupt {
            match x {
                0..=44 => Strategy::FinishCurrent,
                45..=54 => Strategy::PollNextN(0),
                55..=74 => Strategy::PollNextN(1),
                75..=86 => Strategy::PollNextN(2),
                87..=94 => Strategy::PollNextN(3),
                95..=97 => Strategy::PollNextN(rng.range(4, 6) as u64),
                _ => Strategy::PollNextN(1000),
            }
        } else {
            match x {
                0..=29 => Strategy::NonInterruptible,
                30..=39 => Strategy::Ignore,
                40..=69 => Strategy::FinishCurrent,
                70..=74 => Strategy::PollNextN(0),
                75..=86 => Strategy::PollNextN(1),
                87..=93 => Strategy::PollNextN(2),
                94..=97 => Strategy::PollNextN(3),
                98 => Strategy::PollNextN(rng.range(4, 6) as u64),
                _ => Strategy::PollNextN(1000),
            }
        };
        include = rng.chance(1, 2);
        if strategy.has_channel() {
            signals = if k.force_interrupt {
                if rng.chance(1, 6) {
                    2
                } else {
                    1
                }
            } else {
                match rng.below(10) {
                    0 | 1 => 0,
                    2..=8 => 1,
                    _ => 2,
                }
            };
            may_drop_sender = rng.chance(1, 10);
        }
    }

    // user-function behaviour profile (swarm: some runs switch a behaviour off
    // entirely - e.g. nothing ever completes on its own - or on for everything)
    let profile = if k.held_bias {
        rng.weighted(&[50, 8, 8, 14, 16, 4])
    } else {
        rng.weighted(&[40, 14, 9, 18, 13, 6])
    };
    let odd_wakes = rng.chance(1, 2);
    let mut gates: Vec<GateSpec> = (0..n)
        .map(|_| {
            let (imm, yl) = match profile {
                0 => (rng.chance(1, 12), if rng.chance(1, 12) { rng.range(1, 2) } else { 0 }),
                1 => (rng.chance(5, 6), 0),
                2 => (rng.chance(1, 3), if rng.chance(2, 3) { rng.range(1, 3) } else { 0 }),
                3 => (rng.chance(1, 3), if rng.chance(1, 4) { rng.range(1, 2) } else { 0 }),
                // every user future waits for its release
                4 => (false, 0),
                // every user future is ready on its first poll
                _ => (true, 0),
            };
            // heavy-tailed virtual duration
            let dur = match rng.below(8) {
                0 => rng.range(20, 100),
                1 | 2 => rng.range(5, 20),
                _ => rng.range(1, 5),
            } as u32;
            GateSpec {
                yields: yl as u8,
                immediate: imm,
                fail: false,
                wake_twice: odd_wakes && rng.chance(1, 8),
                stale_wake: odd_wakes && rng.chance(1, 8),
                dur,
            }
        })
        .collect();

    if api.can_fail() && k.allow_fail && n > 0 {
        let plan = if k.force_fail {
            match rng.below(10) {
                0..=3 => FailPlan::One,
                4..=5 => FailPlan::Two,
                6..=7 => FailPlan::Many,
                8 => FailPlan::All,
                _ => FailPlan::Last,
            }
        } else {
            match rng.below(20) {
                0..=11 => FailPlan::None,
                12..=15 => FailPlan::One,
                16 => FailPlan::Two,
                17 => FailPlan::Many,
                18 => FailPlan::All,
                _ => FailPlan::Last,
            }
        };
        match plan {
            FailPlan::None => {}
            FailPlan::One => gates[rng.below(n)].fail = true,
            FailPlan::Two => {
                gates[rng.below(n)].fail = true;
                gates[rng.below(n)].fail = true;
            }
            FailPlan::Many => {
                for g in gates.iter_mut() {
                    if rng.chance(1, 2) {
                        g.fail = true;
                    }
                }
                gates[rng.below(n)].fail = true;
            }
            FailPlan::All => {
                for g in gates.iter_mut() {
                    g.fail = true;
                }
            }
            FailPlan::Last => gates[n - 1].fail = true,
        }
    }

    let coop_flag = if n >= 25 { rng.chance(1, 3) } else { rng.chance(1, 16) };
    let coop_burn_v: u8 = if coop_flag && rng.chance(1, 2) { [64, 120, 126, 127, 128][rng.below(5)] } else { 0 };
    RunSpec {
        api,
        reverse,
        limit,
        strategy,
        include,
        gates,
        signals,
        may_drop_sender,
        strict_waker: rng.chance(1, 2),
        may_abort: k.allow_abort && rng.chance(1, 3),
        may_forget: k.allow_forget && api.is_stream() && rng.chance(1, 6),
        // tokio's cooperative budget only bites when many operations happen in one
        // poll: mostly wide graphs
        coop: coop_flag,
        share_intr_state: false,
        rev_calls: if reverse { [1, 1, 1, 2, 3][rng.below(5)] } else { 1 },
        intr_hooks: strategy.has_channel() && rng.chance(1, 4),
        signals_anytime: signals > 0 && api.has_limit() && rng.chance(1, 3),
        leave_refs: false,
        carried_slots: 0,
        coop_burn: coop_burn_v,
        unwind_drop_mask: if api.is_stream() && rng.chance(1, 8) { rng.range(1, 255) as u8 } else { 0 },
    }
}

pub fn gen_sched(rng: &mut Rng, rs: &RunSpec, prop: Prop) -> SchedParams {
    let policy = match rng.below(20) {
        0..=7 => Policy::PollEager,
        8..=12 => Policy::PollLazy,
        13..=14 => Policy::ExternalFirst,
        _ => Policy::Uniform,
    };
    let order = match rng.below(10) {
        0..=4 => Order::Random,
        5 | 6 => Order::VirtualTime,
        7 => Order::Fifo,
        _ => Order::Lifo,
    };
    let spurious_16 = match rng.below(4) {
        0 | 1 => 0,
        2 => 1,
        _ => 4,
    };
    let mid_16 = match rng.below(4) {
        0 | 1 => 0,
        2 => 2,
        _ => 6,
    };
    let mut p = SchedParams {
        policy,
        order,
        spurious_16,
        mid_16,
        abort_64: if rs.may_abort { [1, 3, 8][rng.below(3)] } else { 0 },
        interrupt_64: if rs.signals > 0 { [2, 6, 16][rng.below(3)] } else { 0 },
        interrupt_first: rs.signals > 0 && rng.chance(1, 8),
        forget_64: if rs.may_forget { 4 } else { 0 },
        drop_sender_64: if rs.may_drop_sender { 4 } else { 0 },
        multi_drop: rng.chance(1, 2),
        // wide graphs: bursts long enough to overrun any fixed-size buffer
        burst_64: if rs.gates.len() >= 25 { [4, 16, 16, 32][rng.below(4)] } else { [0, 0, 4, 16][rng.below(4)] },
    };
    if prop == Prop::C06 {
        // the makespan oracle needs the virtual-time discipline in a good share of runs
        if rng.chance(1, 2) {
            p.policy = Policy::PollEager;
            p.order = Order::VirtualTime;
            p.spurious_16 = 0;
            p.mid_16 = 0;
            p.burst_64 = 0;
        }
    }
    p
}

// ---------------------------------------------------------------------------
// Cases per property

pub struct GenCase {
    pub case: CaseSpec,
    pub sched: Vec<SchedParams>,
}

pub fn gen_case(prop: Prop, rng: &mut Rng) -> GenCase {
    use Family::*;
    let all_fams = [Stream, Fold, TryFold, ForEach, TryForEach];
    let call_fams = [Fold, TryFold, ForEach, TryForEach];
    let mut knobs = RunKnobs {
        apis: apis_for(&all_fams, false),
        allow_fail: true,
        force_fail: false,
        allow_interrupt: true,
        force_interrupt: false,
        allow_limit: true,
        limit_bias: false,
        allow_abort: false,
        allow_forget: false,
        held_bias: false,
    };
    let mut allow_wide = true;
    let mut wide_pct = 4;
    let mut min_n = 0;
    let mut conflict_bias = false;
    let mut mode = Mode::Single;
    let mut nruns = 1;
    match prop {
        Prop::C01 => {
            conflict_bias = true;
            knobs.held_bias = true;
            min_n = 2;
        }
        Prop::C02 => {
            knobs.held_bias = true;
            min_n = 2;
        }
        Prop::C03 => {
            wide_pct = 12;
        }
        Prop::C04 => {
            knobs.apis = apis_for(&call_fams, false);
        }
        Prop::C05 => {
            wide_pct = 8;
            knobs.apis = apis_for(&[Stream], false);
            knobs.allow_abort = true;
            knobs.allow_forget = true;
        }
        Prop::C06 => {
            knobs.apis = apis_for(&[Stream, ForEach, TryForEach], false)
                .into_iter()
                .filter(|a| !matches!(a, Api::StreamInterruptible | Api::StreamWithInterruptible))
                .collect();
            knobs.allow_fail = false;
            knobs.allow_interrupt = false;
            knobs.allow_limit = false;
            knobs.held_bias = true;
            min_n = 1;
        }
        Prop::C07 => {
            knobs.apis = apis_for(&[TryFold, TryForEach], false);
            knobs.force_fail = true;
            min_n = 1;
        }
        Prop::C08 => {
            knobs.apis = apis_for(&all_fams, false)
                .into_iter()
                .filter(|a| a.interruptible())
                .collect();
            knobs.force_interrupt = true;
            min_n = 1;
        }
        Prop::C09 => {
            knobs.apis = apis_for(&call_fams, false);
        }
        Prop::C10 => {
            knobs.apis = apis_for(&call_fams, false);
            knobs.limit_bias = true;
            knobs.held_bias = true;
            wide_pct = 8;
            min_n = 1;
        }
        Prop::C14 => {}
        Prop::C15 => {
            mode = Mode::History;
            nruns = rng.range(2, 4);
            allow_wide = false;
            knobs.allow_abort = true;
            knobs.allow_forget = true;
        }
        Prop::C20 => {
            mode = Mode::Concurrent;
            nruns = match rng.below(24) {
                0 | 1 => 4,
                2 => rng.range(5, 6),
                // many runs created on one graph value while the first ones are alive
                3 => rng.range(9, 10),
                _ => rng.range(2, 3),
            };
            allow_wide = false;
            knobs.apis = apis_for(&all_fams, true);
            if nruns >= 9 && rng.chance(2, 3) {
                // ... all of one family (e.g. ten streams)
                let fam = [Stream, Stream, ForEach, Fold][rng.below(4)];
                knobs.apis = apis_for(&[fam], true);
            }
        }
    }
    // every single-run property is also exercised after earlier runs on the same graph
    // value and next to another run on it (a sixteenth of the cases each)
    if mode == Mode::Single && prop != Prop::C14 {
        match rng.below(16) {
            0 => {
                mode = Mode::History;
                nruns = rng.range(2, 3);
                allow_wide = false;
                knobs.allow_abort = true;
            }
            1 => {
                mode = Mode::Concurrent;
                nruns = 2;
                allow_wide = false;
                knobs.apis.retain(|a| !a.is_mut());
            }
            _ => {}
        }
    }
    let mut n = pick_n(rng, allow_wide, wide_pct, min_n);
    if !allow_wide && rng.chance(1, 5) {
        // histories / simultaneous runs: moderately wide graphs, too
        n = [32, 33, 40, 65][rng.below(4)];
    }
    let mut dm = pick_decl_mode(rng, conflict_bias);
    if n > 1000 && !matches!(dm, DeclMode::None | DeclMode::ReadOnly) {
        // build() searches a path for every pair that is not yet ordered: with a
        // thousand mutually conflicting functions that is cubic
        dm = if rng.chance(1, 2) { DeclMode::None } else { DeclMode::ReadOnly };
    }
    let graph = gen_graph(rng, n, dm);
    let mut runs = Vec::new();
    let mut sched = Vec::new();
    for i in 0..nruns {
        let mut k = knobs.clone();
        if mode == Mode::History && i + 1 == nruns {
            // the probe run is an ordinary run
            k.allow_abort = rng.chance(1, 4);
        }
        let rs = gen_run(rng, n, &k);
        sched.push(gen_sched(rng, &rs, prop));
        runs.push(rs);
    }
    if mode == Mode::History && rng.chance(1, 3) {
        // FnRefs outliving their stream: the run before the last walks away with what it
        // holds, the last run drops them (or never does) while it is in progress
        let k = runs.len();
        if runs[k - 2].api.is_stream() {
            runs[k - 2].leave_refs = true;
            runs[k - 2].may_abort = true;
            sched[k - 2].abort_64 = sched[k - 2].abort_64.max(3);
        }
        runs[k - 1].carried_slots = rng.range(1, 3) as u8;
    }
    if mode == Mode::History && prop != Prop::C15 && FEATURE_I && rng.chance(2, 3) {
        // the last two runs are given reborrows of ONE interruptibility state (as a caller
        // that runs several graphs under one interruption scope does): signal and
        // counters persist from one run into the next
        let k = runs.len();
        if runs[k - 2].strategy.has_channel() && !runs[k - 1].api.interruptible() {
            // give the last run an API that takes an interruptibility state
            let cands: Vec<Api> = ALL_APIS.iter().copied().filter(|a| a.interruptible()).collect();
            let api = cands[rng.below(cands.len())];
            let r = &mut runs[k - 1];
            r.api = api;
            if !api.has_limit() {
                r.limit = None;
            }
            if !api.can_fail() {
                for g in r.gates.iter_mut() {
                    g.fail = false;
                }
            }
            r.may_forget = r.may_forget && api.is_stream();
            r.unwind_drop_mask = if api.is_stream() { r.unwind_drop_mask } else { 0 };
        }
        if runs[k - 2].strategy.has_channel() && runs[k - 1].api.interruptible() {
            runs[k - 1].strategy = runs[k - 2].strategy;
            runs[k - 2].share_intr_state = true;
            runs[k - 1].share_intr_state = true;
            runs[k - 2].may_drop_sender = false;
            runs[k - 1].may_drop_sender = false;
        }
    }
    if mode == Mode::Concurrent {
        // the cooperative budget belongs to the task that polls all the runs: it is
        // one setting for the whole world (and for each run's solo re-execution)
        let (coop, burn) = (runs[0].coop, runs[0].coop_burn);
        for r in runs.iter_mut() {
            r.coop = coop;
            r.coop_burn = burn;
        }
    }
    GenCase {
        case: CaseSpec { graph, runs, mode },
        sched,
    }
}

/// Small graph + one try_* run, for the failing-subset enumeration of C07.
pub fn gen_case_small_try(rng: &mut Rng) -> GenCase {
    use Family::*;
    let knobs = RunKnobs {
        apis: apis_for(&[TryFold, TryForEach], false),
        allow_fail: false,
        force_fail: false,
        allow_interrupt: false,
        force_interrupt: false,
        allow_limit: true,
        limit_bias: false,
        allow_abort: false,
        allow_forget: false,
        held_bias: true,
    };
    let n = rng.range(1, 5);
    let dm = pick_decl_mode(rng, false);
    let graph = gen_graph(rng, n, dm);
    let rs = gen_run(rng, n, &knobs);
    let sched = vec![gen_sched(rng, &rs, Prop::C07)];
    GenCase {
        case: CaseSpec {
            graph,
            runs: vec![rs],
            mode: Mode::Single,
        },
        sched,
    }
}
